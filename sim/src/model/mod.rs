pub mod canon;
pub mod fast;
pub mod tt;
