pub mod canon;
pub mod fast;
pub mod fromsym;
pub mod tt;
pub mod dotread;
pub mod table;
