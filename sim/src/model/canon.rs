//! Independent helpers over diagrams: walking a diagram to its truth table (no
//! operation semantics assumed, only `Choice` pointers are followed) and
//! building the reduced ordered diagram of a truth table out of plain
//! `Rc::new(BDD::Choice(..))` values, with no `BDDEnv` involved.

use std::collections::HashMap;
use std::rc::Rc;

use rsbdd::bdd::{BDDEnv, BDD};
use rsbdd::BDDSymbol;

use super::tt::{low_mask, var64, TT};

/// Truth table (over n <= 6 variables) of the function a diagram denotes.
/// `idx` maps a symbol to its variable index; an index >= n is an error.
pub fn walk64<S: BDDSymbol>(
    node: &BDD<S>,
    n: usize,
    idx: &dyn Fn(&S) -> usize,
) -> Result<u64, String> {
    match node {
        BDD::True => Ok(low_mask(n)),
        BDD::False => Ok(0),
        BDD::Choice(t, s, f) => {
            let i = idx(s);
            if i >= n {
                return Err(format!("symbol {s} (index {i}) outside the {n} variables in play"));
            }
            let m = var64(i, n);
            let tt = walk64(t, n, idx)?;
            let ff = walk64(f, n, idx)?;
            Ok((m & tt) | (!m & ff & low_mask(n)))
        }
    }
}

/// Same for any number of variables; memoised on node address (addresses are only memo keys).
pub fn walk_tt<S: BDDSymbol>(
    node: &Rc<BDD<S>>,
    n: usize,
    idx: &dyn Fn(&S) -> usize,
) -> Result<TT, String> {
    fn go<S: BDDSymbol>(
        node: &Rc<BDD<S>>,
        n: usize,
        idx: &dyn Fn(&S) -> usize,
        memo: &mut HashMap<*const BDD<S>, TT>,
    ) -> Result<TT, String> {
        let key = Rc::as_ptr(node);
        if let Some(t) = memo.get(&key) {
            return Ok(t.clone());
        }
        let r = match node.as_ref() {
            BDD::True => TT::konst(n, true),
            BDD::False => TT::konst(n, false),
            BDD::Choice(t, s, f) => {
                let i = idx(s);
                if i >= n {
                    return Err(format!(
                        "symbol {s} (index {i}) outside the {n} variables in play"
                    ));
                }
                let tt = go(t, n, idx, memo)?;
                let ff = go(f, n, idx, memo)?;
                TT::var(n, i).ite(&tt, &ff)
            }
        };
        memo.insert(key, r.clone());
        Ok(r)
    }
    go(node, n, idx, &mut HashMap::new())
}

fn cof64(tt: u64, i: usize, n: usize, v: bool) -> u64 {
    let m = var64(i, n);
    let sh = 1usize << i;
    if v {
        let x = tt & m;
        x | (x >> sh)
    } else {
        let x = tt & !m & low_mask(n);
        x | (x << sh)
    }
}

/// Reduced ordered diagram of a 64-bit truth table, plain Rc values, no environment.
pub fn canon64<S: BDDSymbol>(tt: u64, n: usize, sym: &dyn Fn(usize) -> S) -> Rc<BDD<S>> {
    fn go<S: BDDSymbol>(tt: u64, level: usize, n: usize, sym: &dyn Fn(usize) -> S) -> Rc<BDD<S>> {
        let full = low_mask(n);
        if tt == 0 {
            return Rc::new(BDD::False);
        }
        if tt == full {
            return Rc::new(BDD::True);
        }
        let mut i = level;
        while i < n {
            let t = cof64(tt, i, n, true);
            let f = cof64(tt, i, n, false);
            if t != f {
                return Rc::new(BDD::Choice(
                    go(t, i + 1, n, sym),
                    sym(i),
                    go(f, i + 1, n, sym),
                ));
            }
            i += 1;
        }
        unreachable!("non-constant table without a deciding variable")
    }
    go(tt & low_mask(n), 0, n, sym)
}

/// Reduced ordered diagram of a general truth table.
pub fn canon_tt<S: BDDSymbol>(tt: &TT, sym: &dyn Fn(usize) -> S) -> Rc<BDD<S>> {
    fn go<S: BDDSymbol>(tt: &TT, level: usize, sym: &dyn Fn(usize) -> S) -> Rc<BDD<S>> {
        if tt.is_false() {
            return Rc::new(BDD::False);
        }
        if tt.is_true() {
            return Rc::new(BDD::True);
        }
        for i in level..tt.n {
            let t = tt.cofactor(i, true);
            let f = tt.cofactor(i, false);
            if t != f {
                return Rc::new(BDD::Choice(go(&t, i + 1, sym), sym(i), go(&f, i + 1, sym)));
            }
        }
        unreachable!("non-constant table without a deciding variable")
    }
    go(tt, 0, sym)
}

/// K1: variables strictly increase along every path; no test with two structurally equal outcomes.
pub fn ordered_reduced<S: BDDSymbol>(node: &BDD<S>) -> Result<(), String> {
    fn go<S: BDDSymbol>(node: &BDD<S>, above: Option<&S>) -> Result<(), String> {
        match node {
            BDD::True | BDD::False => Ok(()),
            BDD::Choice(t, s, f) => {
                if let Some(a) = above {
                    if !(a < s) {
                        return Err(format!("not ordered: {s} tested below {a}"));
                    }
                }
                if t.as_ref() == f.as_ref() {
                    return Err(format!("not reduced: test on {s} has two equal outcomes"));
                }
                go(t, Some(s))?;
                go(f, Some(s))
            }
        }
    }
    go(node, None)
}

/// Re-create a diagram bottom-up in another environment, through `mk_choice`/`mk_const` only.
pub fn recreate<S: BDDSymbol>(env: &BDDEnv<S>, node: &BDD<S>) -> Rc<BDD<S>> {
    match node {
        BDD::True => env.mk_const(true),
        BDD::False => env.mk_const(false),
        BDD::Choice(t, s, f) => {
            let tt = recreate(env, t);
            let ff = recreate(env, f);
            env.mk_choice(tt, s.clone(), ff)
        }
    }
}

/// A structurally identical copy that lives in no environment at all: fresh `Rc` values, the
/// sharing of the original kept (memo by address, addresses held alive during the copy).
pub fn plain_copy<S: BDDSymbol>(node: &Rc<BDD<S>>) -> Rc<BDD<S>> {
    fn go<S: BDDSymbol>(node: &Rc<BDD<S>>, memo: &mut std::collections::BTreeMap<usize, Rc<BDD<S>>>) -> Rc<BDD<S>> {
        let key = Rc::as_ptr(node) as usize;
        if let Some(r) = memo.get(&key) {
            return Rc::clone(r);
        }
        let r = match node.as_ref() {
            BDD::True => Rc::new(BDD::True),
            BDD::False => Rc::new(BDD::False),
            BDD::Choice(t, s, f) => {
                let tt = go(t, memo);
                let ff = go(f, memo);
                Rc::new(BDD::Choice(tt, s.clone(), ff))
            }
        };
        memo.insert(key, Rc::clone(&r));
        r
    }
    go(node, &mut std::collections::BTreeMap::new())
}

/// Number of distinct reachable Choice nodes, by structure.
pub fn distinct_choice_nodes<S: BDDSymbol>(node: &Rc<BDD<S>>) -> usize {
    fn go<S: BDDSymbol>(node: &Rc<BDD<S>>, seen: &mut Vec<Rc<BDD<S>>>) {
        if let BDD::Choice(t, _, f) = node.as_ref() {
            if seen.iter().any(|x| x.as_ref() == node.as_ref()) {
                return;
            }
            seen.push(node.clone());
            go(t, seen);
            go(f, seen);
        }
    }
    let mut seen = Vec::new();
    go(node, &mut seen);
    seen.len()
}

#[cfg(test)]
mod tests {
    use super::*;

    #[test]
    fn canon_walk_roundtrip_all_3var_functions() {
        let n = 3;
        for tt in 0u64..256 {
            let d = canon64::<usize>(tt, n, &|i| i);
            assert_eq!(walk64(&d, n, &|s| *s).unwrap(), tt);
            ordered_reduced(d.as_ref()).unwrap();
            let g = canon_tt::<usize>(&TT::from_u64(n, tt), &|i| i);
            assert_eq!(d, g);
        }
    }

    #[test]
    fn canon_agrees_with_env_on_samples() {
        let env = BDDEnv::<usize>::new();
        let a = env.var(0);
        let b = env.var(2);
        let c = env.var(4);
        let f = env.or(env.and(a, b.clone()), env.xor(b, c));
        let tt = walk64(&f, 5, &|s| *s).unwrap();
        assert_eq!(canon64::<usize>(tt, 5, &|i| i), f);
    }
}
