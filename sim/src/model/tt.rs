//! Truth tables as bitsets. Assignment index `a`: bit `i` of `a` is the value of
//! variable `i`; bit `a` of the table is the function's value under `a`.

use std::fmt;

pub const MAX_VARS: usize = 16;

#[derive(Clone, PartialEq, Eq, Hash, PartialOrd, Ord)]
pub struct TT {
    pub n: usize,
    pub w: Vec<u64>,
}

impl fmt::Debug for TT {
    fn fmt(&self, f: &mut fmt::Formatter<'_>) -> fmt::Result {
        write!(f, "TT{}:", self.n)?;
        for x in self.w.iter().rev() {
            write!(f, "{:x}", x)?;
        }
        Ok(())
    }
}

const VAR_MASKS: [u64; 6] = [
    0xAAAA_AAAA_AAAA_AAAA,
    0xCCCC_CCCC_CCCC_CCCC,
    0xF0F0_F0F0_F0F0_F0F0,
    0xFF00_FF00_FF00_FF00,
    0xFFFF_0000_FFFF_0000,
    0xFFFF_FFFF_0000_0000,
];

/// Mask of the valid bits of a table over n <= 6 variables.
pub fn low_mask(n: usize) -> u64 {
    if n >= 6 {
        u64::MAX
    } else {
        (1u64 << (1usize << n)) - 1
    }
}

/// 64-bit table of variable `i` among n <= 6 variables.
pub fn var64(i: usize, n: usize) -> u64 {
    VAR_MASKS[i] & low_mask(n)
}

impl TT {
    fn words(n: usize) -> usize {
        if n <= 6 {
            1
        } else {
            1usize << (n - 6)
        }
    }

    fn last_mask(n: usize) -> u64 {
        low_mask(n.min(6))
    }

    pub fn konst(n: usize, v: bool) -> Self {
        assert!(n <= MAX_VARS);
        let fill = if v { u64::MAX } else { 0 };
        let mut w = vec![fill; Self::words(n)];
        if n < 6 {
            w[0] &= Self::last_mask(n);
        }
        Self { n, w }
    }

    pub fn var(n: usize, i: usize) -> Self {
        assert!(i < n && n <= MAX_VARS);
        let mut t = Self::konst(n, false);
        if i < 6 {
            for x in &mut t.w {
                *x = VAR_MASKS[i];
            }
            if n < 6 {
                t.w[0] &= Self::last_mask(n);
            }
        } else {
            for (k, x) in t.w.iter_mut().enumerate() {
                if (k >> (i - 6)) & 1 == 1 {
                    *x = u64::MAX;
                }
            }
        }
        t
    }

    pub fn from_u64(n: usize, bits: u64) -> Self {
        assert!(n <= 6);
        Self {
            n,
            w: vec![bits & low_mask(n)],
        }
    }

    pub fn get(&self, a: usize) -> bool {
        (self.w[a >> 6] >> (a & 63)) & 1 == 1
    }

    pub fn set(&mut self, a: usize, v: bool) {
        if v {
            self.w[a >> 6] |= 1u64 << (a & 63);
        } else {
            self.w[a >> 6] &= !(1u64 << (a & 63));
        }
    }

    pub fn size(&self) -> usize {
        1usize << self.n
    }

    pub fn not(&self) -> Self {
        let mut w: Vec<u64> = self.w.iter().map(|x| !x).collect();
        if self.n < 6 {
            w[0] &= Self::last_mask(self.n);
        }
        Self { n: self.n, w }
    }

    pub fn zip(&self, o: &Self, f: impl Fn(u64, u64) -> u64) -> Self {
        assert_eq!(self.n, o.n);
        let mut w: Vec<u64> = self.w.iter().zip(&o.w).map(|(a, b)| f(*a, *b)).collect();
        if self.n < 6 {
            w[0] &= Self::last_mask(self.n);
        }
        Self { n: self.n, w }
    }

    pub fn and(&self, o: &Self) -> Self {
        self.zip(o, |a, b| a & b)
    }
    pub fn or(&self, o: &Self) -> Self {
        self.zip(o, |a, b| a | b)
    }
    pub fn xor(&self, o: &Self) -> Self {
        self.zip(o, |a, b| a ^ b)
    }
    pub fn iff(&self, o: &Self) -> Self {
        self.zip(o, |a, b| !(a ^ b))
    }
    pub fn implies(&self, o: &Self) -> Self {
        self.zip(o, |a, b| !a | b)
    }
    pub fn ite(&self, t: &Self, e: &Self) -> Self {
        self.and(t).or(&self.not().and(e))
    }

    pub fn is_false(&self) -> bool {
        self.w.iter().all(|x| *x == 0)
    }
    pub fn is_true(&self) -> bool {
        self.not().is_false()
    }

    pub fn count_ones(&self) -> usize {
        self.w.iter().map(|x| x.count_ones() as usize).sum()
    }

    /// Cofactor: the table with variable `i` fixed to `v` (result still over n variables, independent of i).
    pub fn cofactor(&self, i: usize, v: bool) -> Self {
        let mut r = Self::konst(self.n, false);
        for a in 0..self.size() {
            let src = if v { a | (1 << i) } else { a & !(1 << i) };
            if self.get(src) {
                r.set(a, true);
            }
        }
        r
    }

    pub fn exists(&self, i: usize) -> Self {
        self.cofactor(i, true).or(&self.cofactor(i, false))
    }

    pub fn forall(&self, i: usize) -> Self {
        self.cofactor(i, true).and(&self.cofactor(i, false))
    }

    pub fn depends_on(&self, i: usize) -> bool {
        self.cofactor(i, true) != self.cofactor(i, false)
    }

    pub fn support(&self) -> Vec<usize> {
        (0..self.n).filter(|i| self.depends_on(*i)).collect()
    }

    /// Implication check: every satisfying assignment of self satisfies o.
    pub fn le(&self, o: &Self) -> bool {
        self.and(&o.not()).is_false()
    }

    pub fn digest(&self) -> u64 {
        let mut parts = vec![self.n as u64];
        parts.extend(self.w.iter().copied());
        crate::prng::mix(&parts)
    }
}

#[cfg(test)]
mod tests {
    use super::*;
    #[test]
    fn var_masks_agree_with_definition() {
        for n in 1..=9 {
            for i in 0..n {
                let t = TT::var(n, i);
                for a in 0..(1usize << n) {
                    assert_eq!(t.get(a), (a >> i) & 1 == 1, "n={n} i={i} a={a}");
                }
            }
        }
    }
    #[test]
    fn cofactor_exists() {
        let n = 7;
        let f = TT::var(n, 0).and(&TT::var(n, 6)).or(&TT::var(n, 3));
        assert_eq!(f.exists(6), TT::var(n, 0).or(&TT::var(n, 3)));
        assert_eq!(f.forall(6), TT::var(n, 3));
        assert_eq!(f.support(), vec![0, 3, 6]);
    }
}
