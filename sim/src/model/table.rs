//! Reader for `rsbdd -r / -t / -v` stdout and the oracles T1-T6 over it.

use std::collections::BTreeMap;

use super::tt::TT;

#[derive(Clone, Copy, Debug, PartialEq, Eq)]
pub enum Cell {
    True,
    False,
    Any,
}

#[derive(Clone, Debug, PartialEq, Eq)]
pub struct Row {
    pub cells: Vec<Cell>,
    pub result: bool,
}

#[derive(Clone, Debug, PartialEq, Eq, Default)]
pub struct Parsed {
    /// `-r` lines (before the table)
    pub ordering: Vec<String>,
    /// header names without the trailing `*`; None when no table was printed
    pub header: Option<Vec<String>>,
    pub rows: Vec<Row>,
    /// `-v` lines: each a list of (name, starred)
    pub var_lines: Vec<Vec<(String, bool)>>,
}

fn split_cells(line: &str) -> Option<Vec<String>> {
    let t = line.trim_end();
    if !t.starts_with('|') || !t.ends_with('|') || t.len() < 2 {
        return None;
    }
    Some(t[1..t.len() - 1].split('|').map(|c| c.trim().to_string()).collect())
}

/// Names of a list written in any of the usual ways: one per line, or separated by commas and / or
/// blanks (identifiers of the formula language contain neither).
fn split_names(text: &str) -> Vec<String> {
    text.split(|c: char| c == ',' || c.is_whitespace()).filter(|s| !s.is_empty()).map(str::to_string).collect()
}

/// A separator line of a table: cells made of dashes (and alignment colons) only.
fn is_rule_line(line: &str) -> bool {
    match split_cells(line) {
        Some(cells) => !cells.is_empty() && cells.iter().all(|c| !c.is_empty() && c.contains('-') && c.chars().all(|ch| ch == '-' || ch == ':' || ch == ' ')),
        None => false,
    }
}

/// Parse stdout. `expect_table` / `expect_vars` say which sections the options asked for.
/// The reader goes by structure, not by layout: blank lines are skipped, table lines are the
/// ones that start with `|`, cells are trimmed (left-aligned, centred ..), a rule line may have any
/// dash / colon pattern or be absent, names of the `-r` section and of a `-v` line may be separated
/// by line breaks, commas or blanks. What the sections SAY is judged by the oracles.
pub fn parse_stdout(stdout: &str, expect_r: bool, expect_table: bool, expect_vars: bool) -> Result<Parsed, String> {
    let mut p = Parsed::default();
    let lines: Vec<&str> = stdout.split('\n').map(|l| l.trim_end_matches('\r')).filter(|l| !l.trim().is_empty()).collect();
    let n = lines.len();
    let mut i = 0;
    if expect_r {
        // names come first; they end where the table starts (a line starting with '|'), where the
        // -v section starts (a line ending with ';') or at the end
        while i < n {
            let l = lines[i];
            if (expect_table && l.trim_start().starts_with('|')) || (expect_vars && !expect_table && l.trim_end().ends_with(';')) {
                break;
            }
            p.ordering.extend(split_names(l));
            i += 1;
        }
    }
    if expect_table {
        if i >= n {
            return Err("no table header".into());
        }
        let mut h = split_cells(lines[i].trim_start()).ok_or_else(|| format!("bad header line {:?}", lines[i]))?;
        if h.last().map(String::as_str) != Some("*") {
            return Err(format!("header does not end with *: {:?}", lines[i]));
        }
        h.pop();
        i += 1;
        while i < n && lines[i].trim_start().starts_with('|') {
            let line = lines[i].trim_start();
            if is_rule_line(line) {
                i += 1;
                continue;
            }
            let cells = split_cells(line).ok_or_else(|| format!("bad row {:?}", lines[i]))?;
            if cells.len() != h.len() + 1 {
                return Err(format!("row with {} cells under a header with {} columns: {:?}", cells.len(), h.len() + 1, lines[i]));
            }
            let mut row = Vec::new();
            for c in &cells[..cells.len() - 1] {
                row.push(match c.as_str() {
                    "True" => Cell::True,
                    "False" => Cell::False,
                    "Any" => Cell::Any,
                    other => return Err(format!("bad cell {other:?}")),
                });
            }
            let result = match cells[cells.len() - 1].as_str() {
                "True" => true,
                "False" => false,
                other => return Err(format!("bad result cell {other:?}")),
            };
            p.rows.push(Row { cells: row, result });
            i += 1;
        }
        p.header = Some(h);
    }
    if expect_vars {
        while i < n {
            let l = lines[i].trim();
            let body = l.strip_suffix(';').ok_or_else(|| format!("-v line without ';': {l:?}"))?;
            let mut items = Vec::new();
            for it in split_names(body) {
                match it.strip_suffix('*') {
                    Some(nm) => items.push((nm.to_string(), true)),
                    None => items.push((it, false)),
                }
            }
            p.var_lines.push(items);
            i += 1;
        }
    }
    if i < n {
        return Err(format!("unexpected trailing output: {:?}", lines[i]));
    }
    Ok(p)
}

/// What the model says about a formula, by name.
pub struct Expect<'a> {
    /// free variables in variable order
    pub header: Vec<String>,
    /// name -> index in the truth table
    pub index: BTreeMap<&'a str, usize>,
    pub func: &'a TT,
    /// the names an ordering fixes, in its order (None: no ordering was given, the header must be
    /// exactly `header`). With an ordering, where the variables it does not list go is not promised:
    /// the header must be a permutation of `header` that keeps the listed names in their order.
    pub listed: Option<Vec<String>>,
}

/// `got` is an acceptable variable order: equal to `want` without an ordering, else a permutation
/// of it in which the listed names keep their relative order.
pub fn order_acceptable(got: &[String], want: &[String], listed: Option<&Vec<String>>) -> bool {
    match listed {
        None => got == want,
        Some(l) => {
            let mut a: Vec<&String> = got.iter().collect();
            let mut b: Vec<&String> = want.iter().collect();
            a.sort();
            b.sort();
            let sub = |v: &[String]| v.iter().filter(|n| l.contains(n)).cloned().collect::<Vec<_>>();
            a == b && sub(got) == sub(want)
        }
    }
}

fn cube_tt(n: usize, header_idx: &[usize], cells: &[Cell]) -> TT {
    let mut t = TT::konst(n, true);
    for (k, c) in cells.iter().enumerate() {
        match c {
            Cell::True => t = t.and(&TT::var(n, header_idx[k])),
            Cell::False => t = t.and(&TT::var(n, header_idx[k]).not()),
            Cell::Any => {}
        }
    }
    t
}

/// filter: 0 any, 1 true, 2 false. Returns (oracle id, detail) on failure.
pub fn judge_table(p: &Parsed, e: &Expect, filter: u8, model_flag: bool) -> Result<(), (String, String)> {
    let n = e.func.n;
    let header = p.header.as_ref().ok_or(("T1".to_string(), "no table".to_string()))?;
    if !order_acceptable(header, &e.header, e.listed.as_ref()) {
        return Err(("T1".into(), format!("header {:?}, expected the free variables in variable order {:?}", header, e.header)));
    }
    let hidx: Vec<usize> = header.iter().map(|h| e.index[h.as_str()]).collect();
    let cubes: Vec<TT> = p.rows.iter().map(|r| cube_tt(n, &hidx, &r.cells)).collect();
    // T2: pairwise disjoint
    let mut union = TT::konst(n, false);
    for (i, c) in cubes.iter().enumerate() {
        if !union.and(c).is_false() {
            return Err(("T2".into(), format!("row {i} overlaps an earlier row")));
        }
        union = union.or(c);
    }
    let mut true_union = TT::konst(n, false);
    let mut false_union = TT::konst(n, false);
    for (r, c) in p.rows.iter().zip(&cubes) {
        if r.result {
            true_union = true_union.or(c);
        } else {
            false_union = false_union.or(c);
        }
    }
    if !model_flag {
        // T3: the result column is the formula's value on every covered assignment
        if !true_union.le(e.func) {
            return Err(("T3".into(), "a row marked True covers an assignment that falsifies the formula".into()));
        }
        if !false_union.and(e.func).is_false() {
            return Err(("T3".into(), "a row marked False covers an assignment that satisfies the formula".into()));
        }
        // T4: coverage
        let want = match filter {
            1 => e.func.clone(),
            2 => e.func.not(),
            _ => TT::konst(n, true),
        };
        if union != want {
            return Err((
                "T4".into(),
                format!(
                    "rows cover {} assignments, expected {} ({})",
                    union.count_ones(),
                    want.count_ones(),
                    match filter {
                        1 => "exactly the satisfying ones",
                        2 => "exactly the falsifying ones",
                        _ => "every assignment exactly once",
                    }
                ),
            ));
        }
        if filter == 1 && p.rows.iter().any(|r| !r.result) || filter == 2 && p.rows.iter().any(|r| r.result) {
            return Err(("T4".into(), "a row of the filtered-out kind was printed".into()));
        }
    } else {
        // T6: -m — one satisfying cube (iff satisfiable), implying the formula; the rest partitions
        let sat = !e.func.is_false();
        let true_rows = p.rows.iter().filter(|r| r.result).count();
        if filter != 2 {
            if sat && true_rows != 1 {
                return Err(("T6".into(), format!("-m printed {true_rows} satisfying rows for a satisfiable formula")));
            }
            if !sat && true_rows != 0 {
                return Err(("T6".into(), "-m printed a satisfying row for an unsatisfiable formula".into()));
            }
            if !true_union.le(e.func) {
                return Err(("T6".into(), "the model row covers an assignment that falsifies the formula".into()));
            }
        } else if true_rows != 0 {
            return Err(("T4".into(), "a True row was printed under filter False".into()));
        }
        if filter == 1 && p.rows.iter().any(|r| !r.result) {
            return Err(("T4".into(), "a False row was printed under filter True".into()));
        }
        if filter == 0 && !union.is_true() {
            return Err(("T6".into(), "with -m the rows no longer cover every assignment exactly once".into()));
        }
        if filter == 2 {
            // the uncovered part must be the model cube: inside the formula, non-empty iff satisfiable
            let rest = false_union.not();
            if !rest.le(e.func) {
                return Err(("T6".into(), "under -m -f false the rows leave a falsifying assignment uncovered".into()));
            }
            if sat == rest.is_false() {
                return Err(("T6".into(), "under -m -f false the uncovered part is not a model".into()));
            }
        }
    }
    Ok(())
}

/// T5: `-v` lists exactly the cubes of the True rows (of the same diagram).
pub fn judge_vars(p: &Parsed, e: &Expect, model_flag: bool) -> Result<(), (String, String)> {
    let n = e.func.n;
    let mut union = TT::konst(n, false);
    for (k, line) in p.var_lines.iter().enumerate() {
        // names listed plain are True, starred are Any, free variables not listed are False
        let mut cube = TT::konst(n, true);
        let mut listed: Vec<&str> = Vec::new();
        for (name, starred) in line {
            let Some(i) = e.index.get(name.as_str()) else {
                return Err(("T5".into(), format!("-v line {k} lists {name:?}, which is not a variable of the formula")));
            };
            if !e.header.iter().any(|h| h == name) {
                return Err(("T5".into(), format!("-v line {k} lists {name:?}, which is not a free variable")));
            }
            if listed.contains(&name.as_str()) {
                return Err(("T5".into(), format!("-v line {k} lists {name:?} twice")));
            }
            listed.push(name.as_str());
            if !*starred {
                cube = cube.and(&TT::var(n, *i));
            }
        }
        for h in &e.header {
            if !listed.contains(&h.as_str()) {
                cube = cube.and(&TT::var(n, e.index[h.as_str()]).not());
            }
        }
        if !union.and(&cube).is_false() {
            return Err(("T5".into(), format!("-v line {k} overlaps an earlier line")));
        }
        union = union.or(&cube);
    }
    if !model_flag {
        if union != *e.func {
            return Err(("T5".into(), format!("-v lines cover {} assignments, the formula has {} satisfying ones", union.count_ones(), e.func.count_ones())));
        }
    } else {
        let sat = !e.func.is_false();
        if !union.le(e.func) || sat == union.is_false() || p.var_lines.len() > 1 {
            return Err(("T6".into(), "-v with -m does not list exactly one satisfying cube (iff satisfiable)".into()));
        }
    }
    // consistency with the printed table, when both are there
    if let Some(printed) = &p.header {
        if printed.iter().any(|h| !e.index.contains_key(h.as_str())) {
            return Err(("T1".into(), format!("header {:?} names something that is not a variable of the formula", printed)));
        }
        let hidx: Vec<usize> = printed.iter().map(|h| e.index[h.as_str()]).collect();
        let mut t = TT::konst(n, false);
        for r in p.rows.iter().filter(|r| r.result) {
            t = t.or(&cube_tt(n, &hidx, &r.cells));
        }
        let true_rows_printed = p.rows.iter().any(|r| r.result) || p.rows.is_empty();
        if true_rows_printed && !p.rows.is_empty() && p.rows.iter().any(|r| r.result) && t != union {
            return Err(("T5".into(), "-v lines and the True rows of the table denote different sets".into()));
        }
    }
    Ok(())
}

#[cfg(test)]
mod tests {
    use super::*;

    #[test]
    fn parse_and_judge() {
        let out = "a\nb\n| a     | b     | *     |\n|-------|-------|-------|\n| False | False | False |\n| False | True  | True  |\n| True  | Any   | True  |\nb;\na, b*;\n";
        let p = parse_stdout(out, true, true, true).unwrap();
        assert_eq!(p.ordering, vec!["a", "b"]);
        assert_eq!(p.rows.len(), 3);
        let names = ["a".to_string(), "b".to_string()];
        let f = TT::var(2, 0).or(&TT::var(2, 1));
        let e = Expect {
            header: names.to_vec(),
            index: names.iter().enumerate().map(|(i, n)| (n.as_str(), i)).collect(),
            func: &f,
            listed: None,
        };
        judge_table(&p, &e, 0, false).unwrap();
        judge_vars(&p, &e, false).unwrap();
        let g = TT::var(2, 0);
        let e2 = Expect {
            header: names.to_vec(),
            index: names.iter().enumerate().map(|(i, n)| (n.as_str(), i)).collect(),
            func: &g,
            listed: None,
        };
        assert_eq!(judge_table(&p, &e2, 0, false).unwrap_err().0, "T3");
    }
}
