//! Conversion of the library's parsed syntax tree into the model's formula type, used to
//! decide (with the model's own Kleene iteration) whether the fixed points of an arbitrary
//! parsed input converge. C12 forbids panics only for "formulas whose fixed points converge";
//! a panic during evaluation of an input whose iteration provably cycles is not judged.

use rsbdd::parser::{BinaryOperator, CountableOperator, ParsedFormula, QuantifierType, ReferenceContents, SymbolicBDD};

use super::fast::{BinOp, CmpOp, EvalError, Evaluator, F};

fn cmp(op: CountableOperator) -> CmpOp {
    match op {
        CountableOperator::AtMost => CmpOp::AtMost,
        CountableOperator::LessThan => CmpOp::LessThan,
        CountableOperator::AtLeast => CmpOp::AtLeast,
        CountableOperator::MoreThan => CmpOp::MoreThan,
        CountableOperator::Exactly => CmpOp::Exactly,
    }
}

fn bin(op: BinaryOperator) -> BinOp {
    match op {
        BinaryOperator::And => BinOp::And,
        BinaryOperator::Or => BinOp::Or,
        BinaryOperator::Xor => BinOp::Xor,
        BinaryOperator::Nor => BinOp::Nor,
        BinaryOperator::Nand => BinOp::Nand,
        BinaryOperator::Implies => BinOp::Implies,
        BinaryOperator::ImpliesInv => BinOp::ImpliesInv,
        BinaryOperator::Iff => BinOp::Iff,
    }
}

/// None when the tree contains something the model has no counterpart for. References are
/// resolved the way the library does it: an undefined name is `false`, a syntax definition is
/// inlined in place (so a fixed-point variable in it is bound dynamically, as `replace_var` does).
pub fn from_symbolic(s: &SymbolicBDD, defs: &dyn Fn(&str) -> Option<ReferenceContents>, depth: usize) -> Option<F> {
    let go = |x: &SymbolicBDD| from_symbolic(x, defs, depth);
    let list = |l: &Vec<SymbolicBDD>| l.iter().map(go).collect::<Option<Vec<_>>>();
    Some(match s {
        SymbolicBDD::False => F::Const(false),
        SymbolicBDD::True => F::Const(true),
        SymbolicBDD::Var(v) => F::Var(v.name.as_ref().clone()),
        SymbolicBDD::Not(a) => F::Not(Box::new(go(a)?)),
        SymbolicBDD::Quantifier(q, vs, a) => F::Quant(
            matches!(q, QuantifierType::Forall),
            vs.iter().map(|v| v.name.as_ref().clone()).collect(),
            Box::new(go(a)?),
        ),
        SymbolicBDD::CountableConst(op, l, n) => F::CountC(cmp(*op), list(l)?, *n as u64),
        SymbolicBDD::CountableVariable(op, l, r) => F::CountL(cmp(*op), list(l)?, list(r)?),
        SymbolicBDD::FixedPoint(v, init, a) => F::Fix(*init, v.name.as_ref().clone(), Box::new(go(a)?)),
        SymbolicBDD::Ite(c, t, e) => F::Ite(Box::new(go(c)?), Box::new(go(t)?), Box::new(go(e)?)),
        SymbolicBDD::BinaryOp(op, a, b) => F::Bin(bin(*op), Box::new(go(a)?), Box::new(go(b)?)),
        SymbolicBDD::Reference(name) => match defs(name) {
            None => F::Const(false),
            Some(ReferenceContents::Syntax(syntax)) if depth > 0 => from_symbolic(&syntax, defs, depth - 1)?,
            Some(_) => return None,
        },
        SymbolicBDD::Subtree(_) => return None,
    })
}

/// Some(false): the model's iteration of some fixed point of this input provably cycles, so the
/// library's iteration cannot terminate either (outside C12). Some(true): every fixed point
/// converges. None: undecided (too many names, unknown construct).
pub fn fixed_points_converge(pf: &ParsedFormula) -> Option<bool> {
    let f = from_symbolic(&pf.bdd, &|n| pf.get_definition(n), 8)?;
    if !f.has_fix() {
        return Some(true);
    }
    let names: Vec<String> = pf.vars.iter().map(|v| v.name.as_ref().clone()).collect();
    let mut ev = Evaluator::new(&names).ok()?;
    match ev.eval(&f) {
        Ok(_) => Some(true),
        Err(EvalError::NonConvergent) => Some(false),
        Err(_) => None,
    }
}
