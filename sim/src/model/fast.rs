//! Formula AST of the rsbdd language, a grammar-aware printer, and a reference
//! evaluator on truth tables. The evaluator interprets the AST the printer was
//! given (never a second parse of the text).

use std::collections::BTreeMap;

use serde::{Deserialize, Serialize};

use super::tt::TT;
use crate::prng::Prng;

#[derive(Clone, Copy, Debug, PartialEq, Eq, Hash, Serialize, Deserialize, PartialOrd, Ord)]
pub enum BinOp {
    And,
    Or,
    Xor,
    Nor,
    Nand,
    Implies,
    ImpliesInv,
    Iff,
}

#[derive(Clone, Copy, Debug, PartialEq, Eq, Hash, Serialize, Deserialize, PartialOrd, Ord)]
pub enum CmpOp {
    AtMost,
    LessThan,
    AtLeast,
    MoreThan,
    Exactly,
}

#[derive(Clone, Debug, PartialEq, Eq, Hash, Serialize, Deserialize)]
pub enum F {
    Const(bool),
    Var(String),
    Not(Box<F>),
    Bin(BinOp, Box<F>, Box<F>),
    Ite(Box<F>, Box<F>, Box<F>),
    /// (forall?, names, body)
    Quant(bool, Vec<String>, Box<F>),
    CountC(CmpOp, Vec<F>, u64),
    CountL(CmpOp, Vec<F>, Vec<F>),
    /// (gfp?, name, body)
    Fix(bool, String, Box<F>),
}

pub const KEYWORDS: [&str; 23] = [
    "false", "true", "not", "and", "or", "xor", "nor", "nand", "implies", "in", "iff", "eq",
    "exists", "any", "forall", "all", "if", "then", "else", "gfp", "nu", "lfp", "mu",
];

impl F {
    pub fn size(&self) -> usize {
        match self {
            F::Const(_) | F::Var(_) => 1,
            F::Not(a) | F::Quant(_, _, a) | F::Fix(_, _, a) => 1 + a.size(),
            F::Bin(_, a, b) => 1 + a.size() + b.size(),
            F::Ite(a, b, c) => 1 + a.size() + b.size() + c.size(),
            F::CountC(_, l, _) => 1 + l.iter().map(F::size).sum::<usize>(),
            F::CountL(_, l, r) => 1 + l.iter().chain(r.iter()).map(F::size).sum::<usize>(),
        }
    }

    pub fn children(&self) -> Vec<&F> {
        match self {
            F::Const(_) | F::Var(_) => vec![],
            F::Not(a) | F::Quant(_, _, a) | F::Fix(_, _, a) => vec![a],
            F::Bin(_, a, b) => vec![a, b],
            F::Ite(a, b, c) => vec![a, b, c],
            F::CountC(_, l, _) => l.iter().collect(),
            F::CountL(_, l, r) => l.iter().chain(r.iter()).collect(),
        }
    }

    /// All names in order of first appearance in the *printed text* (binder names come
    /// before their body, list elements left to right).
    pub fn names_in_text_order(&self) -> Vec<String> {
        fn go(f: &F, out: &mut Vec<String>) {
            let push = |n: &String, out: &mut Vec<String>| {
                if !out.contains(n) {
                    out.push(n.clone());
                }
            };
            match f {
                F::Const(_) => {}
                F::Var(n) => push(n, out),
                F::Not(a) => go(a, out),
                F::Bin(_, a, b) => {
                    go(a, out);
                    go(b, out);
                }
                F::Ite(a, b, c) => {
                    go(a, out);
                    go(b, out);
                    go(c, out);
                }
                F::Quant(_, ns, a) => {
                    for n in ns {
                        push(n, out);
                    }
                    go(a, out);
                }
                F::CountC(_, l, _) => {
                    for x in l {
                        go(x, out);
                    }
                }
                F::CountL(_, l, r) => {
                    for x in l.iter().chain(r.iter()) {
                        go(x, out);
                    }
                }
                F::Fix(_, n, a) => {
                    push(n, out);
                    go(a, out);
                }
            }
        }
        let mut out = Vec::new();
        go(self, &mut out);
        out
    }

    /// Names with an occurrence not enclosed by a binder of the same name.
    pub fn free_names(&self) -> Vec<String> {
        fn go(f: &F, bound: &mut Vec<String>, out: &mut Vec<String>) {
            match f {
                F::Const(_) => {}
                F::Var(n) => {
                    if !bound.contains(n) && !out.contains(n) {
                        out.push(n.clone());
                    }
                }
                F::Not(a) => go(a, bound, out),
                F::Bin(_, a, b) => {
                    go(a, bound, out);
                    go(b, bound, out);
                }
                F::Ite(a, b, c) => {
                    go(a, bound, out);
                    go(b, bound, out);
                    go(c, bound, out);
                }
                F::Quant(_, ns, a) => {
                    let k = bound.len();
                    bound.extend(ns.iter().cloned());
                    go(a, bound, out);
                    bound.truncate(k);
                }
                F::CountC(_, l, _) => {
                    for x in l {
                        go(x, bound, out);
                    }
                }
                F::CountL(_, l, r) => {
                    for x in l.iter().chain(r.iter()) {
                        go(x, bound, out);
                    }
                }
                F::Fix(_, n, a) => {
                    bound.push(n.clone());
                    go(a, bound, out);
                    bound.pop();
                }
            }
        }
        let mut out = Vec::new();
        go(self, &mut Vec::new(), &mut out);
        out
    }

    pub fn has_fix(&self) -> bool {
        matches!(self, F::Fix(..)) || self.children().iter().any(|c| c.has_fix())
    }
}

// ---------------------------------------------------------------------------------------------
// Reference evaluator
// ---------------------------------------------------------------------------------------------

#[derive(Debug, Clone, PartialEq, Eq)]
pub enum EvalError {
    /// a fixed point did not converge within the lattice height (body not monotone)
    NonConvergent,
    UnknownName(String),
    TooManyNames,
}

pub struct Evaluator<'a> {
    /// name -> variable index of the truth tables
    pub index: BTreeMap<&'a str, usize>,
    pub n: usize,
    /// Kleene iterations performed (reach probe)
    pub iterations: u64,
    /// most rounds any single fixed-point evaluation needed (reach probe)
    pub max_rounds: u64,
}

impl<'a> Evaluator<'a> {
    pub fn new(names: &'a [String]) -> Result<Self, EvalError> {
        if names.len() > super::tt::MAX_VARS {
            return Err(EvalError::TooManyNames);
        }
        Ok(Self {
            index: names.iter().enumerate().map(|(i, n)| (n.as_str(), i)).collect(),
            n: names.len(),
            iterations: 0,
            max_rounds: 0,
        })
    }

    pub fn eval(&mut self, f: &F) -> Result<TT, EvalError> {
        let mut scope: Vec<(String, TT)> = Vec::new();
        self.go(f, &mut scope)
    }

    fn idx(&self, name: &str) -> Result<usize, EvalError> {
        self.index
            .get(name)
            .copied()
            .ok_or_else(|| EvalError::UnknownName(name.to_string()))
    }

    fn counts(&mut self, list: &[F], scope: &mut Vec<(String, TT)>) -> Result<Vec<TT>, EvalError> {
        // cnt[k] = assignments under which exactly k of the operands are true
        let mut cnt = vec![TT::konst(self.n, true)];
        for x in list {
            let t = self.go(x, scope)?;
            let nt = t.not();
            let mut next = vec![TT::konst(self.n, false); cnt.len() + 1];
            for (k, c) in cnt.iter().enumerate() {
                next[k] = next[k].or(&c.and(&nt));
                next[k + 1] = next[k + 1].or(&c.and(&t));
            }
            cnt = next;
        }
        Ok(cnt)
    }

    fn go(&mut self, f: &F, scope: &mut Vec<(String, TT)>) -> Result<TT, EvalError> {
        let n = self.n;
        Ok(match f {
            F::Const(b) => TT::konst(n, *b),
            F::Var(name) => {
                if let Some((_, t)) = scope.iter().rev().find(|(k, _)| k == name) {
                    // `None`-like marker: a quantifier shadowing is stored as an n=usize::MAX table
                    if t.n == usize::MAX {
                        TT::var(n, self.idx(name)?)
                    } else {
                        t.clone()
                    }
                } else {
                    TT::var(n, self.idx(name)?)
                }
            }
            F::Not(a) => self.go(a, scope)?.not(),
            F::Bin(op, a, b) => {
                let x = self.go(a, scope)?;
                let y = self.go(b, scope)?;
                match op {
                    BinOp::And => x.and(&y),
                    BinOp::Or => x.or(&y),
                    BinOp::Xor => x.xor(&y),
                    BinOp::Nor => x.or(&y).not(),
                    BinOp::Nand => x.and(&y).not(),
                    BinOp::Implies => x.implies(&y),
                    BinOp::ImpliesInv => y.implies(&x),
                    BinOp::Iff => x.iff(&y),
                }
            }
            F::Ite(c, t, e) => {
                let c = self.go(c, scope)?;
                let t = self.go(t, scope)?;
                let e = self.go(e, scope)?;
                c.ite(&t, &e)
            }
            F::Quant(forall, names, body) => {
                let k = scope.len();
                for nm in names {
                    // shadow marker: inside, the name is the plain variable again
                    scope.push((
                        nm.clone(),
                        TT {
                            n: usize::MAX,
                            w: vec![],
                        },
                    ));
                }
                let r = self.go(body, scope);
                scope.truncate(k);
                let mut r = r?;
                for nm in names {
                    let i = self.idx(nm)?;
                    r = if *forall { r.forall(i) } else { r.exists(i) };
                }
                r
            }
            F::CountC(op, list, c) => {
                let cnt = self.counts(list, scope)?;
                let mut r = TT::konst(n, false);
                for (k, t) in cnt.iter().enumerate() {
                    let k = k as u64;
                    let ok = match op {
                        CmpOp::AtMost => k <= *c,
                        CmpOp::LessThan => k < *c,
                        CmpOp::AtLeast => k >= *c,
                        CmpOp::MoreThan => k > *c,
                        CmpOp::Exactly => k == *c,
                    };
                    if ok {
                        r = r.or(t);
                    }
                }
                r
            }
            F::CountL(op, l, rr) => {
                let cl = self.counts(l, scope)?;
                let cr = self.counts(rr, scope)?;
                let mut r = TT::konst(n, false);
                for (i, a) in cl.iter().enumerate() {
                    for (j, b) in cr.iter().enumerate() {
                        let ok = match op {
                            CmpOp::AtMost => i <= j,
                            CmpOp::LessThan => i < j,
                            CmpOp::AtLeast => i >= j,
                            CmpOp::MoreThan => i > j,
                            CmpOp::Exactly => i == j,
                        };
                        if ok {
                            r = r.or(&a.and(b));
                        }
                    }
                }
                r
            }
            F::Fix(gfp, name, body) => {
                let mut cur = TT::konst(n, *gfp);
                let limit = (1usize << n.min(20)) + 2;
                let mut iters = 0usize;
                // an iterate that returns to an earlier, different one can never become stable
                let mut seen: std::collections::HashSet<TT> = std::collections::HashSet::new();
                loop {
                    self.iterations += 1;
                    scope.push((name.clone(), cur.clone()));
                    let next = self.go(body, scope);
                    scope.pop();
                    let next = next?;
                    if next == cur {
                        self.max_rounds = self.max_rounds.max(iters as u64 + 1);
                        break cur;
                    }
                    if !seen.insert(cur) || seen.contains(&next) {
                        return Err(EvalError::NonConvergent);
                    }
                    cur = next;
                    iters += 1;
                    if iters > limit {
                        return Err(EvalError::NonConvergent);
                    }
                }
            }
        })
    }
}

// ---------------------------------------------------------------------------------------------
// Printer
// ---------------------------------------------------------------------------------------------

/// Printing style: every random spelling / spacing decision comes from the embedded PRNG.
pub struct Printer<'p> {
    pub rng: Option<&'p mut Prng>,
    /// 0 = canonical (first spelling, single spaces, no extras)
    pub noise: u8,
}

#[derive(Clone, Debug, PartialEq, Eq)]
enum Tok {
    Word(String),
    Sym(&'static str),
    Num(String),
    Comment(String),
}

impl<'p> Printer<'p> {
    pub fn canonical() -> Printer<'static> {
        Printer { rng: None, noise: 0 }
    }

    pub fn noisy(rng: &'p mut Prng, noise: u8) -> Self {
        Self {
            rng: Some(rng),
            noise,
        }
    }

    fn pick(&mut self, options: &[&'static str]) -> &'static str {
        match (&mut self.rng, self.noise) {
            (Some(r), n) if n > 0 => options[r.below(options.len())],
            _ => options[0],
        }
    }

    fn maybe(&mut self, num: usize, den: usize) -> bool {
        match (&mut self.rng, self.noise) {
            (Some(r), n) if n > 0 => r.chance(num, den),
            _ => false,
        }
    }

    pub fn print(&mut self, f: &F) -> String {
        let mut toks = Vec::new();
        if self.maybe(1, 10) {
            toks.push(Tok::Comment("leading comment: a | b".to_string()));
        }
        self.emit(f, &mut toks);
        if self.maybe(1, 6) {
            // a comment may also close the text
            toks.push(Tok::Comment("& trailing comment".to_string()));
        }
        self.layout(&toks)
    }

    fn open_right(f: &F) -> bool {
        match f {
            F::Const(_) | F::Var(_) | F::CountC(..) | F::CountL(..) => false,
            F::Bin(..) | F::Quant(..) | F::Fix(..) | F::Ite(..) => true,
            F::Not(g) => !matches!(g.as_ref(), F::Bin(..)) && Self::open_right(g),
        }
    }

    fn sym_bin(&mut self, op: BinOp) -> Tok {
        let s = match op {
            BinOp::And => self.pick(&["&", "*", "and"]),
            BinOp::Or => self.pick(&["|", "+", "or"]),
            BinOp::Xor => self.pick(&["^", "xor"]),
            BinOp::Nor => self.pick(&["nor"]),
            BinOp::Nand => self.pick(&["nand"]),
            BinOp::Implies => self.pick(&["=>", "implies", "in"]),
            BinOp::ImpliesInv => self.pick(&["<="]),
            BinOp::Iff => self.pick(&["<=>", "iff", "eq"]),
        };
        if s.chars().all(|c| c.is_ascii_alphabetic()) {
            Tok::Word(s.to_string())
        } else {
            Tok::Sym(s)
        }
    }

    fn paren(&mut self, f: &F, out: &mut Vec<Tok>) {
        out.push(Tok::Sym("("));
        self.emit(f, out);
        out.push(Tok::Sym(")"));
    }

    fn comment(&mut self, out: &mut Vec<Tok>) {
        if self.maybe(1, 12) {
            let c = self.pick(&[
                "a comment",
                "x & y | (",
                "",
                "exists q # 12",
                "line1\nline2",
                "ünï ٣",
            ]);
            out.push(Tok::Comment(c.to_string()));
        }
    }

    fn emit_list(&mut self, l: &[F], out: &mut Vec<Tok>) {
        out.push(Tok::Sym("["));
        for (i, x) in l.iter().enumerate() {
            if i > 0 {
                out.push(Tok::Sym(","));
            }
            self.emit(x, out);
        }
        if !l.is_empty() && self.maybe(1, 6) {
            out.push(Tok::Sym(","));
        }
        out.push(Tok::Sym("]"));
    }

    fn cmp_sym(op: CmpOp) -> &'static str {
        match op {
            CmpOp::AtMost => "<=",
            CmpOp::LessThan => "<",
            CmpOp::AtLeast => ">=",
            CmpOp::MoreThan => ">",
            CmpOp::Exactly => "=",
        }
    }

    fn emit(&mut self, f: &F, out: &mut Vec<Tok>) {
        self.comment(out);
        if self.maybe(1, 10) {
            // redundant parentheses are always allowed around any sub-formula
            out.push(Tok::Sym("("));
            self.emit_bare(f, out);
            out.push(Tok::Sym(")"));
        } else {
            self.emit_bare(f, out);
        }
    }

    fn emit_bare(&mut self, f: &F, out: &mut Vec<Tok>) {
        match f {
            F::Const(b) => out.push(Tok::Word(if *b { "true" } else { "false" }.to_string())),
            F::Var(n) => out.push(Tok::Word(n.clone())),
            F::Not(g) => {
                let s = self.pick(&["-", "!", "not"]);
                if s == "not" {
                    out.push(Tok::Word(s.to_string()));
                } else {
                    out.push(Tok::Sym(s));
                }
                if matches!(g.as_ref(), F::Bin(..)) {
                    self.paren(g, out);
                } else {
                    self.emit(g, out);
                }
            }
            F::Bin(op, a, b) => {
                if matches!(a.as_ref(), F::Bin(..)) || Self::open_right(a) {
                    self.paren(a, out);
                } else {
                    self.emit(a, out);
                }
                let t = self.sym_bin(*op);
                out.push(t);
                self.emit(b, out);
            }
            F::Ite(c, t, e) => {
                out.push(Tok::Word("if".into()));
                self.emit(c, out);
                out.push(Tok::Word("then".into()));
                self.emit(t, out);
                out.push(Tok::Word("else".into()));
                self.emit(e, out);
            }
            F::Quant(forall, names, body) => {
                let kw = if *forall {
                    self.pick(&["forall", "all"])
                } else {
                    self.pick(&["exists", "any"])
                };
                out.push(Tok::Word(kw.to_string()));
                for (i, n) in names.iter().enumerate() {
                    if i > 0 {
                        out.push(Tok::Sym(","));
                    }
                    out.push(Tok::Word(n.clone()));
                }
                if !names.is_empty() && self.maybe(1, 6) {
                    out.push(Tok::Sym(","));
                }
                out.push(Tok::Sym("#"));
                self.emit(body, out);
            }
            F::CountC(op, l, c) => {
                self.emit_list(l, out);
                out.push(Tok::Sym(Self::cmp_sym(*op)));
                let mut num = c.to_string();
                if self.maybe(1, 8) {
                    num = format!("00{num}");
                }
                out.push(Tok::Num(num));
            }
            F::CountL(op, l, r) => {
                self.emit_list(l, out);
                out.push(Tok::Sym(Self::cmp_sym(*op)));
                self.emit_list(r, out);
            }
            F::Fix(gfp, name, body) => {
                let kw = if *gfp {
                    self.pick(&["gfp", "nu"])
                } else {
                    self.pick(&["lfp", "mu"])
                };
                out.push(Tok::Word(kw.to_string()));
                out.push(Tok::Word(name.clone()));
                out.push(Tok::Sym("#"));
                self.emit(body, out);
            }
        }
    }

    fn layout(&mut self, toks: &[Tok]) -> String {
        let mut s = String::new();
        let mut prev: Option<&Tok> = None;
        for t in toks {
            if let Some(p) = prev {
                // classes: 0 word/number, 1 bracket/comma, 2 operator symbol, 3 comment.
                // A separator is mandatory between two word-like tokens; between two operator
                // symbols one is always kept (so that no longer operator can form).
                let class = |t: &Tok| match t {
                    Tok::Word(_) | Tok::Num(_) => 0,
                    Tok::Sym("(" | ")" | "[" | "]" | ",") => 1,
                    Tok::Sym(_) => 2,
                    Tok::Comment(_) => 3,
                };
                let (cp, ct) = (class(p), class(t));
                let may_glue = cp != 3 && ct != 3 && !(cp == 0 && ct == 0) && !(cp == 2 && ct == 2);
                let glue = may_glue && self.maybe(1, 3);
                if !glue {
                    let sep = if self.maybe(1, 8) {
                        self.pick(&["  ", "\n", "\t", " \n  ", "\r\n", " ; ", " $ ", " ~ "])
                    } else {
                        " "
                    };
                    s.push_str(sep);
                }
            }
            match t {
                Tok::Word(w) => s.push_str(w),
                Tok::Num(w) => s.push_str(w),
                Tok::Sym(w) => s.push_str(w),
                Tok::Comment(c) => {
                    s.push('"');
                    s.push_str(c);
                    s.push('"');
                }
            }
            prev = Some(t);
        }
        if self.maybe(1, 6) {
            s.push('\n');
        }
        if self.maybe(1, 25) {
            // a byte-order mark is outside the token alphabet: a separator like any other
            s.insert(0, '\u{feff}');
        }
        s
    }
}

// ---------------------------------------------------------------------------------------------
// Generator
// ---------------------------------------------------------------------------------------------

#[derive(Clone, Debug, Serialize, Deserialize)]
pub struct GenCfg {
    /// pool of names that may occur free
    pub pool: Vec<String>,
    /// pool of names used for binders (may overlap with `pool` to create shadowing)
    pub binder_pool: Vec<String>,
    pub max_depth: usize,
    pub max_list: usize,
    /// weights: const, var, not, bin, ite, quant, countc, countl, fix
    pub weights: [u32; 9],
    pub max_fix_nesting: usize,
}

#[derive(Clone, Copy, PartialEq, Eq, Debug)]
enum Pol {
    Pos,
    Neg,
    Mixed,
    /// not a fixed-point entry: a quantifier on the same name shadows the fixed-point name,
    /// inside it the name is a plain variable again
    Plain,
}

impl Pol {
    fn flip(self) -> Self {
        match self {
            Pol::Pos => Pol::Neg,
            Pol::Neg => Pol::Pos,
            Pol::Mixed => Pol::Mixed,
            Pol::Plain => Pol::Plain,
        }
    }
}

pub const NAME_POOL: [&str; 37] = [
    "a", "b", "c", "d", "e", "f", "x", "y", "z", "p1", "q_2", "x'", "'y", "Ab", "é", "ñu", "变量",
    "v_0", "v_1", "_", "T", "F", "orx", "nota", "A", "t", "x_", "aB", "a_rather_long_variable_name", "v10",
    // words that are keywords in related languages but plain identifiers here
    "top", "bot", "xnor", "let", "tt", "ff",
    // canonically equivalent to "é" above (e + combining acute), yet another identifier
    "e\u{301}",
];

pub fn gen_cfg(rng: &mut Prng, max_names: usize, max_depth: usize) -> GenCfg {
    let k = rng.range(1, max_names.max(1));
    let mut all: Vec<String> = NAME_POOL.iter().map(|s| s.to_string()).collect();
    rng.shuffle(&mut all);
    let mut pool: Vec<String> = all[..k].to_vec();
    if k >= 2 && rng.chance(1, 12) {
        // `hash-collision`: two distinct names whose string hashes are equal
        let (a, b) = colliding_name_pair();
        pool[0] = a;
        pool[1] = b;
    }
    // binder names: some from the free pool (shadowing), some fresh
    let nb = rng.range(1, 3);
    let mut binder_pool = Vec::new();
    for i in 0..nb {
        if rng.coin() {
            binder_pool.push(rng.pick(&pool).clone());
        } else {
            binder_pool.push(all[k + i].clone());
        }
    }
    let mut weights = [2u32, 8, 4, 10, 2, 3, 2, 1, 2];
    for w in &mut weights[2..] {
        *w = *rng.pick(&[0u32, 1, 1, 3]) * *w;
    }
    let mut max_fix_nesting = rng.range(0, 2);
    if rng.chance(1, 8) {
        // binder-heavy swarm mode: quantifier and fixed-point idioms dominate the formula
        weights[5] = 9;
        weights[8] = 8;
        max_fix_nesting = 2;
    }
    GenCfg {
        pool,
        binder_pool,
        max_depth: rng.range(1, max_depth.max(1)),
        max_list: rng.range(0, 4),
        weights,
        max_fix_nesting,
    }
}

/// A pair of distinct identifier names with the same FxHash (constructed once).
pub fn colliding_name_pair() -> (String, String) {
    static PAIR: std::sync::OnceLock<(String, String)> = std::sync::OnceLock::new();
    PAIR.get_or_init(|| {
        crate::fx::colliding_names_9("reqst_x")
            .into_iter()
            .find(|(a, b)| !a.chars().next().is_some_and(|c| c.is_ascii_digit()) && !b.chars().next().is_some_and(|c| c.is_ascii_digit()))
            .expect("a colliding pair of 9-character names exists for this prefix")
    })
    .clone()
}

/// Plain variables usable by the saturation idiom: pool names that are no fixed-point name in scope.
fn saturation_candidates(cfg: &GenCfg, fixes: &[(String, Pol)]) -> Vec<String> {
    let mut v: Vec<String> = Vec::new();
    for n in &cfg.pool {
        if !fixes.iter().any(|(m, _)| m == n) && !v.contains(n) {
            v.push(n.clone());
        }
    }
    v
}

pub fn gen_formula(rng: &mut Prng, cfg: &GenCfg) -> F {
    let mut fixes: Vec<(String, Pol)> = Vec::new();
    gen_rec(rng, cfg, cfg.max_depth, &mut fixes, 0)
}

fn with_flip<T>(fixes: &mut Vec<(String, Pol)>, how: Option<bool>, f: impl FnOnce(&mut Vec<(String, Pol)>) -> T) -> T {
    // how: Some(true) = flip polarity, Some(false) = keep, None = mixed
    let saved: Vec<Pol> = fixes.iter().map(|(_, p)| *p).collect();
    for (_, p) in fixes.iter_mut() {
        *p = match (how, *p) {
            (_, Pol::Plain) => Pol::Plain,
            (Some(true), q) => q.flip(),
            (Some(false), q) => q,
            (None, _) => Pol::Mixed,
        };
    }
    let r = f(fixes);
    let keep = saved.len();
    fixes.truncate(keep);
    for (i, p) in saved.into_iter().enumerate() {
        fixes[i].1 = p;
    }
    r
}

fn gen_rec(
    rng: &mut Prng,
    cfg: &GenCfg,
    depth: usize,
    fixes: &mut Vec<(String, Pol)>,
    fix_nesting: usize,
) -> F {
    let mut w = cfg.weights;
    if depth == 0 {
        for x in &mut w[2..] {
            *x = 0;
        }
    }
    if fix_nesting >= cfg.max_fix_nesting {
        w[8] = 0;
    }
    let d = depth.saturating_sub(1);
    match rng.weighted(&w) {
        0 => F::Const(rng.coin()),
        1 => {
            // the innermost entry of a name decides: Pos = usable as the fixed-point name,
            // Plain = shadowed by a quantifier (a plain variable), Neg/Mixed = not usable here
            let innermost = |n: &String| fixes.iter().rev().find(|(m, _)| m == n).map(|(_, p)| *p);
            let mut usable: Vec<String> = Vec::new();
            for (n, _) in fixes.iter() {
                if innermost(n) == Some(Pol::Pos) && !usable.contains(n) {
                    usable.push(n.clone());
                }
            }
            if !usable.is_empty() && rng.chance(1, 2) {
                F::Var(rng.pick(&usable).clone())
            } else {
                let mut cands: Vec<&String> = cfg
                    .pool
                    .iter()
                    .filter(|n| matches!(innermost(n), None | Some(Pol::Plain)))
                    .collect();
                for (n, _) in fixes.iter() {
                    if innermost(n) == Some(Pol::Plain) && !cands.contains(&n) {
                        cands.push(n);
                    }
                }
                if cands.is_empty() {
                    F::Const(rng.coin())
                } else {
                    F::Var((*rng.pick(&cands)).clone())
                }
            }
        }
        2 => F::Not(Box::new(with_flip(fixes, Some(true), |fx| {
            gen_rec(rng, cfg, d, fx, fix_nesting)
        }))),
        3 if rng.chance(1, 8) => {
            // the chain idiom: one operator joining three to six operands without parentheses
            // (the grammar reads it right-nested), for every operator incl. the non-associative ones
            let op = *rng.pick(&[BinOp::And, BinOp::Or, BinOp::Xor, BinOp::Nor, BinOp::Nand, BinOp::Implies, BinOp::ImpliesInv, BinOp::Iff, BinOp::Nor, BinOp::Nand]);
            let k = rng.range(3, 6);
            let mut operands: Vec<F> = (0..k).map(|_| with_flip(fixes, None, |fx| gen_rec(rng, cfg, d.min(1), fx, fix_nesting))).collect();
            let mut acc = operands.pop().expect("k >= 3");
            while let Some(x) = operands.pop() {
                acc = F::Bin(op, Box::new(x), Box::new(acc));
            }
            acc
        }
        3 => {
            let op = *rng.pick(&[
                BinOp::And,
                BinOp::And,
                BinOp::Or,
                BinOp::Or,
                BinOp::Xor,
                BinOp::Nor,
                BinOp::Nand,
                BinOp::Implies,
                BinOp::ImpliesInv,
                BinOp::Iff,
            ]);
            let (fl, fr) = match op {
                BinOp::And | BinOp::Or => (Some(false), Some(false)),
                BinOp::Nor | BinOp::Nand => (Some(true), Some(true)),
                BinOp::Implies => (Some(true), Some(false)),
                BinOp::ImpliesInv => (Some(false), Some(true)),
                BinOp::Xor | BinOp::Iff => (None, None),
            };
            let a = with_flip(fixes, fl, |fx| gen_rec(rng, cfg, d, fx, fix_nesting));
            let b = with_flip(fixes, fr, |fx| gen_rec(rng, cfg, d, fx, fix_nesting));
            F::Bin(op, Box::new(a), Box::new(b))
        }
        4 => {
            let c = with_flip(fixes, None, |fx| gen_rec(rng, cfg, d, fx, fix_nesting));
            let t = gen_rec(rng, cfg, d, fixes, fix_nesting);
            let e = gen_rec(rng, cfg, d, fixes, fix_nesting);
            F::Ite(Box::new(c), Box::new(t), Box::new(e))
        }
        5 if rng.chance(1, 4) && !cfg.pool.is_empty() => {
            // the definitional-quantifier idiom: exists t # (t <=> DEF) & REST (and its dual),
            // with t a binder name that does not occur in DEF
            let t = rng.pick(&cfg.binder_pool).clone();
            let def_cfg = GenCfg {
                pool: cfg.pool.iter().filter(|n| **n != t).cloned().collect(),
                binder_pool: cfg.binder_pool.iter().filter(|n| **n != t).cloned().collect(),
                max_fix_nesting: 0,
                ..cfg.clone()
            };
            let def = if def_cfg.pool.is_empty() || def_cfg.binder_pool.is_empty() {
                F::Const(rng.coin())
            } else {
                let mut none: Vec<(String, Pol)> = fixes.iter().map(|(n, _)| (n.clone(), Pol::Mixed)).collect();
                gen_rec(rng, &def_cfg, d.min(2), &mut none, cfg.max_fix_nesting)
            };
            let k0 = fixes.len();
            if fixes.iter().any(|(m, _)| *m == t) {
                fixes.push((t.clone(), Pol::Plain));
            }
            let rest_cfg = GenCfg {
                pool: {
                    let mut p = cfg.pool.clone();
                    if !p.contains(&t) {
                        p.push(t.clone());
                    }
                    p
                },
                ..cfg.clone()
            };
            let rest = gen_rec(rng, &rest_cfg, d.min(3), fixes, fix_nesting);
            fixes.truncate(k0);
            let iff = F::Bin(BinOp::Iff, Box::new(F::Var(t.clone())), Box::new(def));
            if rng.chance(2, 3) {
                F::Quant(false, vec![t], Box::new(F::Bin(BinOp::And, Box::new(iff), Box::new(rest))))
            } else {
                F::Quant(true, vec![t], Box::new(F::Bin(BinOp::Implies, Box::new(iff), Box::new(rest))))
            }
        }
        5 => {
            let k = *rng.pick(&[0usize, 1, 1, 1, 2, 2, 3]);
            let mut names = Vec::new();
            for _ in 0..k {
                let src = if rng.chance(2, 3) { &cfg.pool } else { &cfg.binder_pool };
                names.push(rng.pick(src).clone());
            }
            // a quantifier on a fix-bound name shadows it: mark as shadowed by pushing a Mixed entry
            let k0 = fixes.len();
            for n in &names {
                if fixes.iter().any(|(m, _)| m == n) {
                    fixes.push((n.clone(), Pol::Plain));
                }
            }
            let body = gen_rec(rng, cfg, d, fixes, fix_nesting);
            fixes.truncate(k0);
            F::Quant(rng.coin(), names, Box::new(body))
        }
        6 => {
            let op = *rng.pick(&[
                CmpOp::AtMost,
                CmpOp::LessThan,
                CmpOp::AtLeast,
                CmpOp::MoreThan,
                CmpOp::Exactly,
            ]);
            let len = rng.range(0, cfg.max_list);
            let how = match op {
                CmpOp::AtLeast | CmpOp::MoreThan => Some(false),
                CmpOp::AtMost | CmpOp::LessThan => Some(true),
                CmpOp::Exactly => None,
            };
            let list: Vec<F> = (0..len)
                .map(|_| with_flip(fixes, how, |fx| gen_rec(rng, cfg, d.min(2), fx, fix_nesting)))
                .collect();
            // mostly constants around the list length; sometimes a boundary value far above it
            let c = if rng.chance(1, 12) {
                *rng.pick(&[63u64, 64, 65, 255, 256, 257, 65535, 65536, 4294967295, 4294967296, 9223372036854775807, 9223372036854775808, 18446744073709551615])
            } else {
                rng.range(0, len + 2) as u64
            };
            F::CountC(op, list, c)
        }
        7 => {
            let op = *rng.pick(&[
                CmpOp::AtMost,
                CmpOp::LessThan,
                CmpOp::AtLeast,
                CmpOp::MoreThan,
                CmpOp::Exactly,
            ]);
            let (hl, hr) = match op {
                CmpOp::AtLeast | CmpOp::MoreThan => (Some(false), Some(true)),
                CmpOp::AtMost | CmpOp::LessThan => (Some(true), Some(false)),
                CmpOp::Exactly => (None, None),
            };
            let ll = rng.range(0, cfg.max_list.min(3));
            let lr = rng.range(0, cfg.max_list.min(3));
            let l: Vec<F> = (0..ll)
                .map(|_| with_flip(fixes, hl, |fx| gen_rec(rng, cfg, d.min(1), fx, fix_nesting)))
                .collect();
            let r: Vec<F> = (0..lr)
                .map(|_| with_flip(fixes, hr, |fx| gen_rec(rng, cfg, d.min(1), fx, fix_nesting)))
                .collect();
            F::CountL(op, l, r)
        }
        _ if rng.chance(1, 5) && saturation_candidates(cfg, fixes).len() >= 2 => {
            // the saturation idiom (reachability style): a fixed point whose iterate changes
            // strictly in many consecutive rounds, usually under a quantifier that binds the
            // variables the iterates depend on:
            //   lfp X # (v1 & .. & vm) | (exists v1 # X) | (exists v2 # forall v1 # X) | ..
            // and its dual for gfp; the quantifier lists are varied, X occurs only positively
            let mut vs = saturation_candidates(cfg, fixes);
            rng.shuffle(&mut vs);
            vs.truncate(rng.range(2, vs.len().min(5)));
            let x = {
                let c: Vec<&String> = cfg.binder_pool.iter().filter(|n| !vs.contains(n) && !fixes.iter().any(|(m, _)| m == *n)).collect();
                match c.first() {
                    Some(n) => (*n).clone(),
                    None => return F::Const(rng.coin()),
                }
            };
            let gfp = rng.coin();
            let (join, meet) = if gfp { (BinOp::And, BinOp::Or) } else { (BinOp::Or, BinOp::And) };
            let fold = |op: BinOp, mut items: Vec<F>| -> F {
                let mut acc = items.remove(0);
                for it in items {
                    acc = F::Bin(op, Box::new(acc), Box::new(it));
                }
                acc
            };
            let seed = fold(meet, vs.iter().map(|v| F::Var(v.clone())).collect());
            let mut terms = vec![seed];
            for (i, v) in vs.iter().enumerate() {
                let mut inner = F::Var(x.clone());
                let others: Vec<String> = if rng.chance(3, 4) {
                    vs[..i].to_vec()
                } else {
                    vs.iter().filter(|o| *o != v && rng.coin()).cloned().collect()
                };
                if !others.is_empty() {
                    inner = F::Quant(!gfp, others, Box::new(inner));
                }
                terms.push(F::Quant(gfp, vec![v.clone()], Box::new(inner)));
            }
            let fix = F::Fix(gfp, x, Box::new(fold(join, terms)));
            match rng.below(4) {
                0 => fix,
                1 => F::Quant(rng.coin(), vs.clone(), Box::new(fix)),
                2 => {
                    let k = rng.range(1, vs.len());
                    F::Quant(rng.coin(), vs[..k].to_vec(), Box::new(fix))
                }
                _ => {
                    let other = with_flip(fixes, None, |fx| gen_rec(rng, cfg, d.min(2), fx, cfg.max_fix_nesting));
                    F::Quant(rng.coin(), vs.clone(), Box::new(F::Bin(*rng.pick(&[BinOp::And, BinOp::Or, BinOp::Iff]), Box::new(fix), Box::new(other))))
                }
            }
        }
        _ if fix_nesting + 2 <= cfg.max_fix_nesting.max(2) && cfg.binder_pool.len() >= 2 && !cfg.pool.is_empty() && rng.chance(1, 3) => {
            // classic nested fixed-point shapes (alternation included):
            //   FP1 X # FP2 Y # ((Q a # X) op1 P) op2 Y
            let x = cfg.binder_pool[0].clone();
            let y = cfg.binder_pool[1].clone();
            if x == y {
                return F::Fix(rng.coin(), x.clone(), Box::new(F::Var(x)));
            }
            let a = rng.pick(&cfg.pool).clone();
            fixes.push((x.clone(), Pol::Pos));
            fixes.push((y.clone(), Pol::Pos));
            let p = gen_rec(rng, cfg, d.min(2), fixes, fix_nesting + 2);
            fixes.pop();
            fixes.pop();
            // half of the time the textbook alternation (nu/mu with forall-and-or, mu/nu with
            // exists-or-and), otherwise every combination
            let (g1, g2, q, op1, op2) = match rng.below(4) {
                0 => (true, false, true, BinOp::And, BinOp::Or),
                1 => (false, true, false, BinOp::Or, BinOp::And),
                _ => (rng.coin(), rng.coin(), rng.coin(), *rng.pick(&[BinOp::And, BinOp::Or]), *rng.pick(&[BinOp::And, BinOp::Or])),
            };
            let qx = if a == x || a == y {
                F::Var(x.clone())
            } else {
                F::Quant(q, vec![a], Box::new(F::Var(x.clone())))
            };
            let inner = F::Bin(op2, Box::new(F::Bin(op1, Box::new(qx), Box::new(p))), Box::new(F::Var(y.clone())));
            F::Fix(g1, x, Box::new(F::Fix(g2, y, Box::new(inner))))
        }
        _ => {
            let name = if rng.chance(1, 3) {
                rng.pick(&cfg.pool).clone()
            } else {
                rng.pick(&cfg.binder_pool).clone()
            };
            fixes.push((name.clone(), Pol::Pos));
            let body = gen_rec(rng, cfg, d, fixes, fix_nesting + 1);
            fixes.pop();
            F::Fix(rng.coin(), name, Box::new(body))
        }
    }
}

/// Candidates for shrinking a formula: every formula obtained by replacing one sub-term by one
/// of its children or by a constant (smaller first is not guaranteed; callers re-test).
pub fn shrink_candidates(f: &F) -> Vec<F> {
    let mut out = Vec::new();
    // replace the root
    for c in f.children() {
        out.push(c.clone());
    }
    if !matches!(f, F::Const(_)) {
        out.push(F::Const(false));
        out.push(F::Const(true));
    }
    // recurse
    let rebuild = |f: &F, k: usize, new: F| -> F {
        let mut g = f.clone();
        match &mut g {
            F::Not(a) | F::Quant(_, _, a) | F::Fix(_, _, a) => **a = new,
            F::Bin(_, a, b) => {
                if k == 0 {
                    **a = new
                } else {
                    **b = new
                }
            }
            F::Ite(a, b, c) => match k {
                0 => **a = new,
                1 => **b = new,
                _ => **c = new,
            },
            F::CountC(_, l, _) => l[k] = new,
            F::CountL(_, l, r) => {
                if k < l.len() {
                    l[k] = new
                } else {
                    r[k - l.len()] = new
                }
            }
            F::Const(_) | F::Var(_) => {}
        }
        g
    };
    for (k, c) in f.children().iter().enumerate() {
        for cand in shrink_candidates(c) {
            out.push(rebuild(f, k, cand));
        }
    }
    // drop list elements / binder names
    match f {
        F::CountC(op, l, c) => {
            for i in 0..l.len() {
                let mut l2 = l.clone();
                l2.remove(i);
                out.push(F::CountC(*op, l2, *c));
            }
            if *c > 0 {
                out.push(F::CountC(*op, l.clone(), c - 1));
            }
        }
        F::CountL(op, l, r) => {
            for i in 0..l.len() {
                let mut l2 = l.clone();
                l2.remove(i);
                out.push(F::CountL(*op, l2, r.clone()));
            }
            for i in 0..r.len() {
                let mut r2 = r.clone();
                r2.remove(i);
                out.push(F::CountL(*op, l.clone(), r2));
            }
        }
        F::Quant(fa, ns, b) => {
            for i in 0..ns.len() {
                let mut n2 = ns.clone();
                n2.remove(i);
                out.push(F::Quant(*fa, n2, b.clone()));
            }
        }
        _ => {}
    }
    out
}

#[cfg(test)]
mod tests {
    use super::*;

    fn v(s: &str) -> F {
        F::Var(s.to_string())
    }

    #[test]
    fn printer_rules() {
        let mut p = Printer::canonical();
        let f = F::Bin(
            BinOp::And,
            Box::new(F::Bin(BinOp::Or, Box::new(v("a")), Box::new(v("b")))),
            Box::new(v("c")),
        );
        assert_eq!(p.print(&f), "( a | b ) & c");
        let g = F::Bin(
            BinOp::And,
            Box::new(F::Not(Box::new(F::Quant(false, vec!["x".into()], Box::new(v("x")))))),
            Box::new(v("c")),
        );
        assert_eq!(p.print(&g), "( - exists x # x ) & c");
        let h = F::Not(Box::new(F::CountC(CmpOp::Exactly, vec![v("a")], 1)));
        assert_eq!(p.print(&h), "- [ a ] = 1");
    }

    #[test]
    fn evaluator_fixpoints_and_shadowing() {
        // lfp X # a | X  == a ; gfp X # a & X == a
        let names = vec!["X".to_string(), "a".to_string()];
        let mut ev = Evaluator::new(&names).unwrap();
        let l = F::Fix(false, "X".into(), Box::new(F::Bin(BinOp::Or, Box::new(v("a")), Box::new(v("X")))));
        assert_eq!(ev.eval(&l).unwrap(), TT::var(2, 1));
        // lfp X # exists X # X  : inner X is the plain variable, exists X # X == true
        let s = F::Fix(false, "X".into(), Box::new(F::Quant(false, vec!["X".into()], Box::new(v("X")))));
        assert!(ev.eval(&s).unwrap().is_true());
        assert_eq!(s.free_names(), Vec::<String>::new());
    }

    #[test]
    fn counting() {
        let names = vec!["a".to_string(), "b".to_string(), "c".to_string()];
        let mut ev = Evaluator::new(&names).unwrap();
        let f = F::CountC(CmpOp::Exactly, vec![v("a"), v("b"), v("c")], 2);
        let t = ev.eval(&f).unwrap();
        for a in 0..8usize {
            assert_eq!(t.get(a), a.count_ones() == 2);
        }
        let g = F::CountL(CmpOp::LessThan, vec![v("a")], vec![v("b"), v("c")]);
        let t = ev.eval(&g).unwrap();
        for a in 0..8usize {
            let l = a & 1;
            let r = ((a >> 1) & 1) + ((a >> 2) & 1);
            assert_eq!(t.get(a), l < r);
        }
    }
}

/// A term that differs from `t` in exactly one attribute (operator, split of two lists, constant,
/// binder kind / names, child order): exporters that share sub-terms must keep such twins apart.
pub fn near_twin(rng: &mut Prng, t: &F) -> Option<F> {
    Some(match t {
        F::CountL(op, l, r) => {
            let mut all: Vec<F> = l.iter().chain(r.iter()).cloned().collect();
            if all.is_empty() {
                return None;
            }
            let mut cut = rng.below(all.len() + 1);
            if cut == l.len() {
                cut = (cut + 1) % (all.len() + 1);
            }
            let right = all.split_off(cut);
            F::CountL(*op, all, right)
        }
        F::CountC(op, l, c) => {
            if rng.coin() {
                F::CountC(*op, l.clone(), c.checked_add(1).unwrap_or_else(|| c - 1))
            } else {
                let other = match op {
                    CmpOp::AtMost => CmpOp::LessThan,
                    CmpOp::LessThan => CmpOp::AtMost,
                    CmpOp::AtLeast => CmpOp::MoreThan,
                    CmpOp::MoreThan => CmpOp::AtLeast,
                    CmpOp::Exactly => CmpOp::AtLeast,
                };
                F::CountC(other, l.clone(), *c)
            }
        }
        F::Quant(fa, names, body) => {
            if rng.coin() || names.is_empty() {
                F::Quant(!*fa, names.clone(), body.clone())
            } else {
                let mut n2 = names.clone();
                if n2.len() > 1 && rng.coin() {
                    n2.reverse();
                    if n2 == *names {
                        n2.pop();
                    }
                } else {
                    n2.pop();
                }
                F::Quant(*fa, n2, body.clone())
            }
        }
        F::Fix(g, n, body) => F::Fix(!*g, n.clone(), body.clone()),
        F::Bin(op, a, b) => {
            if a != b && rng.coin() {
                F::Bin(*op, b.clone(), a.clone())
            } else {
                let other = match op {
                    BinOp::And => BinOp::Nand,
                    BinOp::Nand => BinOp::And,
                    BinOp::Or => BinOp::Nor,
                    BinOp::Nor => BinOp::Or,
                    BinOp::Xor => BinOp::Iff,
                    BinOp::Iff => BinOp::Xor,
                    BinOp::Implies => BinOp::ImpliesInv,
                    BinOp::ImpliesInv => BinOp::Implies,
                };
                F::Bin(other, a.clone(), b.clone())
            }
        }
        F::Ite(a, b, c) => {
            if b != c {
                F::Ite(a.clone(), c.clone(), b.clone())
            } else {
                F::Ite(b.clone(), a.clone(), c.clone())
            }
        }
        F::Not(a) => F::Not(Box::new(F::Not(a.clone()))),
        F::Const(b) => F::Const(!*b),
        F::Var(_) => return None,
    })
}

/// `f & (t | t')` for a random sub-term t of f and a near-twin t' of it (fixed-point names stay
/// inside their binders because t is taken with its context only when it is closed: otherwise the
/// twin pair is built from f itself).
pub fn with_near_twin(rng: &mut Prng, f: &F) -> F {
    fn subterms<'a>(f: &'a F, out: &mut Vec<&'a F>) {
        out.push(f);
        for c in f.children() {
            subterms(c, out);
        }
    }
    let mut subs = Vec::new();
    subterms(f, &mut subs);
    // prefer interesting node kinds
    let interesting: Vec<&F> = subs
        .iter()
        .copied()
        .filter(|t| matches!(t, F::CountL(..) | F::CountC(..) | F::Quant(..) | F::Fix(..) | F::Ite(..) | F::Bin(..)))
        .filter(|t| !uses_unbound_fix_name(t))
        .collect();
    let t: &F = if interesting.is_empty() { f } else { interesting[rng.below(interesting.len())] };
    match near_twin(rng, t) {
        Some(tw) => F::Bin(BinOp::And, Box::new(f.clone()), Box::new(F::Bin(BinOp::Or, Box::new(t.clone()), Box::new(tw)))),
        None => f.clone(),
    }
}

/// conservative: a term is movable when it contains no fixed point at all or is itself closed
/// under its own fixed points (no reference to a fix name bound outside is possible to detect
/// syntactically without context, so any term mentioning a name that some Fix in the whole formula
/// binds is only moved when that Fix is inside the term)
fn uses_unbound_fix_name(_t: &F) -> bool {
    // For DOT export the meaning of the twin is irrelevant (the tree is exported, not evaluated):
    // nothing needs to be excluded.
    false
}
