//! Reader for the DOT subset rsbdd's exporters use: one statement per line, node statements
//! `ID [attributes]`, edge statements `ID -> ID [attributes]`, string values with the escapes of
//! Rust's `char::escape_default` (or written raw). It reads by structure, not by layout.

use std::collections::{BTreeMap, BTreeSet};

#[derive(Clone, Debug, PartialEq, Eq)]
pub struct DotGraph {
    pub name: String,
    /// (id, unescaped label) in declaration order
    pub nodes: Vec<(String, String)>,
    /// (source id, target id, unescaped label) in declaration order
    pub edges: Vec<(String, String, String)>,
}

fn unescape(s: &str) -> Result<String, String> {
    let mut out = String::new();
    let mut it = s.chars().peekable();
    while let Some(c) = it.next() {
        if c != '\\' {
            out.push(c);
            continue;
        }
        match it.next() {
            Some('n') => out.push('\n'),
            Some('t') => out.push('\t'),
            Some('r') => out.push('\r'),
            Some('\\') => out.push('\\'),
            Some('"') => out.push('"'),
            Some('\'') => out.push('\''),
            Some('0') => out.push('\0'),
            Some('u') => {
                if it.next() != Some('{') {
                    return Err("bad \\u escape".into());
                }
                let mut hex = String::new();
                loop {
                    match it.next() {
                        Some('}') => break,
                        Some(h) if h.is_ascii_hexdigit() => hex.push(h),
                        _ => return Err("bad \\u escape".into()),
                    }
                }
                let cp = u32::from_str_radix(&hex, 16).map_err(|_| "bad \\u escape".to_string())?;
                out.push(char::from_u32(cp).ok_or("bad code point")?);
            }
            other => return Err(format!("unknown escape \\{other:?}")),
        }
    }
    Ok(out)
}

/// One token of a statement: an identifier / bare value, a quoted string (unescaped), or a
/// punctuation mark.
#[derive(Clone, Debug, PartialEq)]
enum Tok {
    Id(String),
    Str(String),
    Arrow,
    Open,
    Close,
    Eq,
    Comma,
}

fn tokens(line: &str) -> Result<Vec<Tok>, String> {
    let cs: Vec<char> = line.chars().collect();
    let mut i = 0;
    let mut out = Vec::new();
    while i < cs.len() {
        let c = cs[i];
        if c.is_whitespace() || c == ';' {
            i += 1;
        } else if c == '"' {
            let mut raw = String::new();
            i += 1;
            loop {
                match cs.get(i) {
                    None => return Err("unterminated string".into()),
                    Some('\\') => {
                        raw.push('\\');
                        if let Some(n) = cs.get(i + 1) {
                            raw.push(*n);
                        }
                        i += 2;
                    }
                    Some('"') => {
                        i += 1;
                        break;
                    }
                    Some(ch) => {
                        raw.push(*ch);
                        i += 1;
                    }
                }
            }
            out.push(Tok::Str(unescape(&raw)?));
        } else if c == '[' {
            out.push(Tok::Open);
            i += 1;
        } else if c == ']' {
            out.push(Tok::Close);
            i += 1;
        } else if c == '=' {
            out.push(Tok::Eq);
            i += 1;
        } else if c == ',' {
            out.push(Tok::Comma);
            i += 1;
        } else if c == '-' && matches!(cs.get(i + 1), Some('>') | Some('-')) {
            out.push(Tok::Arrow);
            i += 2;
        } else {
            let st = i;
            while i < cs.len() && !(cs[i].is_whitespace() || matches!(cs[i], '[' | ']' | '=' | ',' | ';' | '"')) && !(cs[i] == '-' && matches!(cs.get(i + 1), Some('>') | Some('-'))) {
                i += 1;
            }
            out.push(Tok::Id(cs[st..i].iter().collect()));
        }
    }
    Ok(out)
}

/// The `label` of an attribute list `[k=v, k=v ..]` starting at `toks[i]` (None: no label given).
fn label_in(toks: &[Tok], mut i: usize) -> Result<Option<String>, String> {
    let mut label = None;
    if i >= toks.len() {
        return Ok(None);
    }
    if toks[i] != Tok::Open {
        return Err(format!("expected an attribute list, found {:?}", toks[i]));
    }
    i += 1;
    while i < toks.len() && toks[i] != Tok::Close {
        if toks[i] == Tok::Comma {
            i += 1;
            continue;
        }
        let key = match &toks[i] {
            Tok::Id(k) | Tok::Str(k) => k.clone(),
            other => return Err(format!("bad attribute key {other:?}")),
        };
        if toks.get(i + 1) != Some(&Tok::Eq) {
            return Err(format!("attribute {key} without a value"));
        }
        let val = match toks.get(i + 2) {
            Some(Tok::Id(v)) | Some(Tok::Str(v)) => v.clone(),
            other => return Err(format!("bad value for attribute {key}: {other:?}")),
        };
        if key == "label" {
            label = Some(val);
        }
        i += 3;
    }
    if i >= toks.len() {
        return Err("unterminated attribute list".into());
    }
    if i + 1 != toks.len() {
        return Err("text after the attribute list".into());
    }
    Ok(label)
}

/// Reads a DOT text by structure, not by layout: `[strict] digraph|graph [name] {`, one statement
/// per line, `}`; comments, blank lines, indentation, `;`, default-attribute statements
/// (`graph [..]`, `node [..]`, `edge [..]`) and graph attributes (`k=v`) are layout. A node
/// statement is `id [attributes]`, an edge statement `id -> id [attributes]`; only the `label`
/// attribute is read, wherever it stands (default: the id for nodes, empty for edges).
pub fn parse_dot(text: &str) -> Result<DotGraph, String> {
    let lines: Vec<&str> = text.split('\n').map(str::trim).filter(|l| !l.is_empty() && !l.starts_with("//") && !l.starts_with('#')).collect();
    if lines.len() < 2 {
        return Err("too short".into());
    }
    let head = lines[0];
    let mut words = head.strip_suffix('{').ok_or_else(|| format!("bad header {head:?}"))?.split_whitespace();
    let mut kw = words.next().unwrap_or("");
    if kw == "strict" {
        kw = words.next().unwrap_or("");
    }
    if kw != "digraph" && kw != "graph" {
        return Err(format!("bad header {head:?}"));
    }
    let name = words.next().unwrap_or("").to_string();
    if words.next().is_some() {
        return Err(format!("bad header {head:?}"));
    }
    if lines[lines.len() - 1] != "}" {
        return Err("missing closing brace".into());
    }
    let mut g = DotGraph {
        name,
        nodes: Vec::new(),
        edges: Vec::new(),
    };
    for l in &lines[1..lines.len() - 1] {
        let toks = tokens(l).map_err(|e| format!("{e} in {l:?}"))?;
        let id = match toks.first() {
            Some(Tok::Id(s)) | Some(Tok::Str(s)) => s.clone(),
            _ => return Err(format!("bad statement {l:?}")),
        };
        if id.is_empty() {
            return Err(format!("empty id in {l:?}"));
        }
        if matches!(toks.first(), Some(Tok::Id(_))) && matches!(id.as_str(), "graph" | "node" | "edge") && matches!(toks.get(1), Some(Tok::Open) | None) {
            continue; // default attributes
        }
        if toks.get(1) == Some(&Tok::Eq) {
            continue; // a graph attribute
        }
        if toks.get(1) == Some(&Tok::Arrow) {
            let target = match toks.get(2) {
                Some(Tok::Id(s)) | Some(Tok::Str(s)) => s.clone(),
                _ => return Err(format!("bad edge {l:?}")),
            };
            let label = label_in(&toks, 3).map_err(|e| format!("{e} in {l:?}"))?.unwrap_or_default();
            g.edges.push((id, target, label));
        } else {
            let label = label_in(&toks, 1).map_err(|e| format!("{e} in {l:?}"))?.unwrap_or_else(|| id.clone());
            g.nodes.push((id, label));
        }
    }
    Ok(g)
}

/// A diagram export with its leaves under canonical ids: a node without outgoing edges whose label
/// is `true` / `false` is the leaf, whatever id the exporter gave it (a test node always has an
/// outgoing edge, also in a filtered export). All diagram oracles work on this form.
pub fn parse_bdd_dot(text: &str) -> Result<DotGraph, String> {
    let mut g = parse_dot(text)?;
    let sources: BTreeSet<String> = g.edges.iter().map(|(s, _, _)| s.clone()).collect();
    let mut rename: BTreeMap<String, String> = BTreeMap::new();
    for (id, label) in &g.nodes {
        if !sources.contains(id) && (label == "true" || label == "false") {
            rename.insert(id.clone(), format!("n_{label}"));
        }
    }
    for (id, _) in g.nodes.iter_mut() {
        if let Some(n) = rename.get(id) {
            *id = n.clone();
        }
    }
    for (s, t, _) in g.edges.iter_mut() {
        if let Some(n) = rename.get(s) {
            *s = n.clone();
        }
        if let Some(n) = rename.get(t) {
            *t = n.clone();
        }
    }
    Ok(g)
}

impl DotGraph {
    /// Every id declared once, every edge endpoint declared.
    pub fn well_formed(&self) -> Result<(), String> {
        let mut seen = BTreeSet::new();
        for (id, _) in &self.nodes {
            if !seen.insert(id.as_str()) {
                return Err(format!("node {id} is declared twice"));
            }
        }
        for (s, t, _) in &self.edges {
            if !seen.contains(s.as_str()) {
                return Err(format!("edge source {s} is not declared"));
            }
            if !seen.contains(t.as_str()) {
                return Err(format!("edge target {t} is not declared"));
            }
        }
        Ok(())
    }

    pub fn roots(&self) -> Vec<&str> {
        let targets: BTreeSet<&str> = self.edges.iter().map(|(_, t, _)| t.as_str()).collect();
        self.nodes
            .iter()
            .map(|(id, _)| id.as_str())
            .filter(|id| !targets.contains(id))
            .collect()
    }

    pub fn label_of(&self, id: &str) -> Option<&str> {
        self.nodes.iter().find(|(i, _)| i == id).map(|(_, l)| l.as_str())
    }

    /// Out-edges of a node in declaration order: (label, target).
    pub fn out(&self, id: &str) -> Vec<(&str, &str)> {
        self.edges
            .iter()
            .filter(|(s, _, _)| s == id)
            .map(|(_, t, l)| (l.as_str(), t.as_str()))
            .collect()
    }

    /// Evaluate as a decision graph under one assignment (label -> value).
    /// Leaves are recognised by id (`n_true` / `n_false`), never by label.
    pub fn eval_decision(&self, root: &str, value_of: &dyn Fn(&str) -> Option<bool>) -> Result<bool, String> {
        let mut cur = root.to_string();
        let mut steps = 0;
        loop {
            if cur == "n_true" {
                return Ok(true);
            }
            if cur == "n_false" {
                return Ok(false);
            }
            let label = self.label_of(&cur).ok_or_else(|| format!("undeclared node {cur}"))?;
            let v = value_of(label).ok_or_else(|| format!("test node labelled {label:?} is not a variable in play"))?;
            let outs = self.out(&cur);
            let want = if v { "T" } else { "F" };
            let next: Vec<&&str> = outs.iter().filter(|(l, _)| *l == want).map(|(_, t)| t).collect();
            if next.len() != 1 {
                return Err(format!("node {cur} ({label:?}) has {} {want}-edges", next.len()));
            }
            cur = next[0].to_string();
            steps += 1;
            if steps > 10_000 {
                return Err("cycle".into());
            }
        }
    }

    /// Address-free canonical form: DFS from the root, nodes numbered by first visit.
    pub fn canonical_form(&self, root: &str) -> String {
        let mut num: BTreeMap<String, usize> = BTreeMap::new();
        let mut out = String::new();
        self.canon_rec(root, &mut num, &mut out, 0);
        out
    }

    fn canon_rec(&self, id: &str, num: &mut BTreeMap<String, usize>, out: &mut String, depth: usize) {
        if depth > 10_000 {
            out.push_str("<deep>");
            return;
        }
        if let Some(k) = num.get(id) {
            out.push_str(&format!("#{k}"));
            return;
        }
        let k = num.len();
        num.insert(id.to_string(), k);
        let leaf = id == "n_true" || id == "n_false";
        out.push_str(&format!("({k}:{}{:?}", if leaf { id } else { "" }, self.label_of(id).unwrap_or("?")));
        for (l, t) in self.out(id) {
            out.push_str(&format!(" -{l:?}->"));
            self.canon_rec(t, num, out, depth + 1);
        }
        out.push(')');
    }
}

/// A term read back from / built for a syntax-tree export.
#[derive(Clone, Debug, PartialEq, Eq)]
pub struct Term {
    pub label: String,
    pub children: Vec<(String, Term)>,
}

impl DotGraph {
    pub fn to_term(&self, root: &str) -> Result<Term, String> {
        fn go(g: &DotGraph, id: &str, depth: usize) -> Result<Term, String> {
            if depth > 5000 {
                return Err("cycle or too deep".into());
            }
            let label = g.label_of(id).ok_or_else(|| format!("undeclared node {id}"))?.to_string();
            let mut children = Vec::new();
            for (l, t) in g.out(id) {
                children.push((l.to_string(), go(g, t, depth + 1)?));
            }
            Ok(Term { label, children })
        }
        go(self, root, 0)
    }
}

#[cfg(test)]
mod tests {
    use super::*;
    #[test]
    fn parses_and_unescapes() {
        let t = "digraph bdd_graph {\n    n_0x1[label=\"q\\\"uo\\u{e9}\\n];\"];\n    n_true[label=\"true\"];\n    n_0x1 -> n_true[label=\"T\"];\n}\n";
        let g = parse_dot(t).unwrap();
        assert_eq!(g.nodes[0].1, "q\"uoé\n];");
        assert_eq!(g.edges[0], ("n_0x1".into(), "n_true".into(), "T".into()));
        g.well_formed().unwrap();
        assert_eq!(g.roots(), vec!["n_0x1"]);
    }
}
