//! Reader for the `dot` crate's output as rsbdd produces it: one statement per line,
//! `ID[label="..."];` for nodes and `ID -> ID[label="..."];` for edges, labels escaped
//! with Rust's `char::escape_default`.

use std::collections::{BTreeMap, BTreeSet};

#[derive(Clone, Debug, PartialEq, Eq)]
pub struct DotGraph {
    pub name: String,
    /// (id, unescaped label) in declaration order
    pub nodes: Vec<(String, String)>,
    /// (source id, target id, unescaped label) in declaration order
    pub edges: Vec<(String, String, String)>,
}

fn unescape(s: &str) -> Result<String, String> {
    let mut out = String::new();
    let mut it = s.chars().peekable();
    while let Some(c) = it.next() {
        if c != '\\' {
            out.push(c);
            continue;
        }
        match it.next() {
            Some('n') => out.push('\n'),
            Some('t') => out.push('\t'),
            Some('r') => out.push('\r'),
            Some('\\') => out.push('\\'),
            Some('"') => out.push('"'),
            Some('\'') => out.push('\''),
            Some('0') => out.push('\0'),
            Some('u') => {
                if it.next() != Some('{') {
                    return Err("bad \\u escape".into());
                }
                let mut hex = String::new();
                loop {
                    match it.next() {
                        Some('}') => break,
                        Some(h) if h.is_ascii_hexdigit() => hex.push(h),
                        _ => return Err("bad \\u escape".into()),
                    }
                }
                let cp = u32::from_str_radix(&hex, 16).map_err(|_| "bad \\u escape".to_string())?;
                out.push(char::from_u32(cp).ok_or("bad code point")?);
            }
            other => return Err(format!("unknown escape \\{other:?}")),
        }
    }
    Ok(out)
}

fn is_id_char(c: char) -> bool {
    c.is_ascii_alphanumeric() || c == '_'
}

/// Split `rest` = `[label="...escaped..."];` into the raw escaped label.
fn take_label(rest: &str) -> Result<&str, String> {
    let rest = rest.strip_prefix("[label=\"").ok_or_else(|| format!("expected [label=\" in {rest:?}"))?;
    // find the closing quote that is not escaped
    let bytes = rest.as_bytes();
    let mut i = 0;
    while i < bytes.len() {
        match bytes[i] {
            b'\\' => i += 2,
            b'"' => {
                let tail = &rest[i + 1..];
                if tail != "];" {
                    return Err(format!("unexpected text after label: {tail:?}"));
                }
                return Ok(&rest[..i]);
            }
            _ => i += 1,
        }
    }
    Err("unterminated label".into())
}

pub fn parse_dot(text: &str) -> Result<DotGraph, String> {
    let mut lines = text.split('\n').collect::<Vec<_>>();
    if lines.last() == Some(&"") {
        lines.pop();
    } else {
        return Err("output does not end with a newline".into());
    }
    if lines.len() < 2 {
        return Err("too short".into());
    }
    let head = lines[0];
    let name = head
        .strip_prefix("digraph ")
        .and_then(|r| r.strip_suffix(" {"))
        .ok_or_else(|| format!("bad header {head:?}"))?
        .to_string();
    if lines[lines.len() - 1] != "}" {
        return Err("missing closing brace".into());
    }
    let mut g = DotGraph {
        name,
        nodes: Vec::new(),
        edges: Vec::new(),
    };
    for l in &lines[1..lines.len() - 1] {
        let body = l.strip_prefix("    ").ok_or_else(|| format!("statement not indented: {l:?}"))?;
        let id_end = body.find(|c: char| !is_id_char(c)).ok_or_else(|| format!("bad statement {l:?}"))?;
        let id = &body[..id_end];
        if id.is_empty() {
            return Err(format!("empty id in {l:?}"));
        }
        let rest = &body[id_end..];
        if let Some(r2) = rest.strip_prefix(" -> ") {
            let t_end = r2.find(|c: char| !is_id_char(c)).ok_or_else(|| format!("bad edge {l:?}"))?;
            let target = &r2[..t_end];
            let label = unescape(take_label(&r2[t_end..])?)?;
            g.edges.push((id.to_string(), target.to_string(), label));
        } else {
            let label = unescape(take_label(rest)?)?;
            g.nodes.push((id.to_string(), label));
        }
    }
    Ok(g)
}

impl DotGraph {
    /// Every id declared once, every edge endpoint declared.
    pub fn well_formed(&self) -> Result<(), String> {
        let mut seen = BTreeSet::new();
        for (id, _) in &self.nodes {
            if !seen.insert(id.as_str()) {
                return Err(format!("node {id} is declared twice"));
            }
        }
        for (s, t, _) in &self.edges {
            if !seen.contains(s.as_str()) {
                return Err(format!("edge source {s} is not declared"));
            }
            if !seen.contains(t.as_str()) {
                return Err(format!("edge target {t} is not declared"));
            }
        }
        Ok(())
    }

    pub fn roots(&self) -> Vec<&str> {
        let targets: BTreeSet<&str> = self.edges.iter().map(|(_, t, _)| t.as_str()).collect();
        self.nodes
            .iter()
            .map(|(id, _)| id.as_str())
            .filter(|id| !targets.contains(id))
            .collect()
    }

    pub fn label_of(&self, id: &str) -> Option<&str> {
        self.nodes.iter().find(|(i, _)| i == id).map(|(_, l)| l.as_str())
    }

    /// Out-edges of a node in declaration order: (label, target).
    pub fn out(&self, id: &str) -> Vec<(&str, &str)> {
        self.edges
            .iter()
            .filter(|(s, _, _)| s == id)
            .map(|(_, t, l)| (l.as_str(), t.as_str()))
            .collect()
    }

    /// Evaluate as a decision graph under one assignment (label -> value).
    /// Leaves are recognised by id (`n_true` / `n_false`), never by label.
    pub fn eval_decision(&self, root: &str, value_of: &dyn Fn(&str) -> Option<bool>) -> Result<bool, String> {
        let mut cur = root.to_string();
        let mut steps = 0;
        loop {
            if cur == "n_true" {
                return Ok(true);
            }
            if cur == "n_false" {
                return Ok(false);
            }
            let label = self.label_of(&cur).ok_or_else(|| format!("undeclared node {cur}"))?;
            let v = value_of(label).ok_or_else(|| format!("test node labelled {label:?} is not a variable in play"))?;
            let outs = self.out(&cur);
            let want = if v { "T" } else { "F" };
            let next: Vec<&&str> = outs.iter().filter(|(l, _)| *l == want).map(|(_, t)| t).collect();
            if next.len() != 1 {
                return Err(format!("node {cur} ({label:?}) has {} {want}-edges", next.len()));
            }
            cur = next[0].to_string();
            steps += 1;
            if steps > 10_000 {
                return Err("cycle".into());
            }
        }
    }

    /// Address-free canonical form: DFS from the root, nodes numbered by first visit.
    pub fn canonical_form(&self, root: &str) -> String {
        let mut num: BTreeMap<String, usize> = BTreeMap::new();
        let mut out = String::new();
        self.canon_rec(root, &mut num, &mut out, 0);
        out
    }

    fn canon_rec(&self, id: &str, num: &mut BTreeMap<String, usize>, out: &mut String, depth: usize) {
        if depth > 10_000 {
            out.push_str("<deep>");
            return;
        }
        if let Some(k) = num.get(id) {
            out.push_str(&format!("#{k}"));
            return;
        }
        let k = num.len();
        num.insert(id.to_string(), k);
        let leaf = id == "n_true" || id == "n_false";
        out.push_str(&format!("({k}:{}{:?}", if leaf { id } else { "" }, self.label_of(id).unwrap_or("?")));
        for (l, t) in self.out(id) {
            out.push_str(&format!(" -{l:?}->"));
            self.canon_rec(t, num, out, depth + 1);
        }
        out.push(')');
    }
}

/// A term read back from / built for a syntax-tree export.
#[derive(Clone, Debug, PartialEq, Eq)]
pub struct Term {
    pub label: String,
    pub children: Vec<(String, Term)>,
}

impl DotGraph {
    pub fn to_term(&self, root: &str) -> Result<Term, String> {
        fn go(g: &DotGraph, id: &str, depth: usize) -> Result<Term, String> {
            if depth > 5000 {
                return Err("cycle or too deep".into());
            }
            let label = g.label_of(id).ok_or_else(|| format!("undeclared node {id}"))?.to_string();
            let mut children = Vec::new();
            for (l, t) in g.out(id) {
                children.push((l.to_string(), go(g, t, depth + 1)?));
            }
            Ok(Term { label, children })
        }
        go(self, root, 0)
    }
}

#[cfg(test)]
mod tests {
    use super::*;
    #[test]
    fn parses_and_unescapes() {
        let t = "digraph bdd_graph {\n    n_0x1[label=\"q\\\"uo\\u{e9}\\n];\"];\n    n_true[label=\"true\"];\n    n_0x1 -> n_true[label=\"T\"];\n}\n";
        let g = parse_dot(t).unwrap();
        assert_eq!(g.nodes[0].1, "q\"uoé\n];");
        assert_eq!(g.edges[0], ("n_0x1".into(), "n_true".into(), "T".into()));
        g.well_formed().unwrap();
        assert_eq!(g.roots(), vec!["n_0x1"]);
    }
}
