//! Shared machinery: violations, run outcomes, the batch runner (16 workers,
//! results independent of worker count), panic capture, ddmin.

use std::cell::RefCell;
use std::collections::{BTreeMap, BTreeSet};
use std::panic::{self, AssertUnwindSafe};
use std::sync::atomic::{AtomicBool, AtomicU64, Ordering};
use std::sync::{Arc, Mutex};
use std::time::Instant;

use serde::{Deserialize, Serialize};

use crate::prng::{mix, Prng};

#[derive(Clone, Debug, Serialize, Deserialize, PartialEq, Eq)]
pub struct Violation {
    pub property: String,
    /// Oracle id from DESIGN.md (I1..I5, S1..S5, K1..K3, T1..T9, O1..O4, D1..D7, G1..G7, P1..)
    pub oracle: String,
    /// Normalised site: panic location, operation name, ordering kind ..; part of the violation class.
    pub site: String,
    /// Index of the plan step at which the oracle fired (usize::MAX when not step-bound).
    pub step: usize,
    pub detail: String,
}

impl Violation {
    pub fn class(&self) -> String {
        format!("{}/{}/{}", self.property, self.oracle, self.site)
    }
}

pub type Stats = BTreeMap<String, u64>;

pub fn bump(stats: &mut Stats, key: &str) {
    *stats.entry(key.to_string()).or_insert(0) += 1;
}

pub fn bump_by(stats: &mut Stats, key: &str, by: u64) {
    *stats.entry(key.to_string()).or_insert(0) += by;
}

#[derive(Clone, Debug, Default)]
pub struct RunOutcome {
    pub violations: Vec<Violation>,
    /// fault kinds fired, reach probes, per-op counters ...
    pub stats: Stats,
    /// non-trivial by the simulator's stated rule
    pub nontrivial: bool,
    /// digest of the plan (what was asked)
    pub plan_digest: u64,
    /// digest of what happened (results, outputs); used by the determinism self-test
    pub trace_digest: u64,
    /// Some(reason) when the run could not be judged (budget exhausted, nesting bound ..)
    pub unjudged: Option<String>,
    pub ticks: u64,
    pub steps: u64,
    /// digests of states reached (denotations, stdout ..), merged into a distinct-state count
    pub state_digests: Vec<u64>,
}

#[derive(Debug, Default)]
pub struct BatchResult {
    pub runs: u64,
    pub stats: Stats,
    pub nontrivial_digests: BTreeSet<u64>,
    pub state_digests: BTreeSet<u64>,
    pub trace_digest: u64,
    pub unjudged: BTreeMap<String, u64>,
    pub ticks: u64,
    pub steps: u64,
    /// class -> (lowest run index, violation)
    pub violations: BTreeMap<String, (u64, Violation)>,
    pub violating_runs: u64,
    pub wall_s: f64,
    pub truncated: bool,
}

thread_local! {
    static LAST_PANIC: RefCell<Option<(String, String)>> = const { RefCell::new(None) };
}

/// Install a panic hook that prints nothing and records message + location per thread.
pub fn install_quiet_panic_hook() {
    panic::set_hook(Box::new(|info| {
        let msg = if let Some(s) = info.payload().downcast_ref::<&str>() {
            (*s).to_string()
        } else if let Some(s) = info.payload().downcast_ref::<String>() {
            s.clone()
        } else {
            "<non-string panic payload>".to_string()
        };
        let loc = info
            .location()
            .map(|l| format!("{}:{}", normalise_path(l.file()), l.line()))
            .unwrap_or_else(|| "<unknown>".to_string());
        LAST_PANIC.with(|p| *p.borrow_mut() = Some((msg, loc)));
    }));
}

pub fn normalise_path(p: &str) -> String {
    // keep paths stable between /repo and scratch copies of it
    if let Some(pos) = p.find("/src/") {
        let head = &p[..pos];
        let crate_dir = head.rsplit('/').next().unwrap_or("");
        if head.ends_with("/repo") || head == "/repo" {
            return p[pos + 1..].to_string();
        }
        return format!("{}{}", crate_dir, &p[pos..]);
    }
    p.to_string()
}

pub fn take_last_panic() -> Option<(String, String)> {
    LAST_PANIC.with(|p| p.borrow_mut().take())
}

#[derive(Debug)]
pub enum Caught<T> {
    Ok(T),
    /// the in-process tick budget was exhausted
    Budget,
    /// a marker payload thrown by a scripted transformer (deliberate cancellation)
    Cancel,
    /// any other panic: (message, location)
    Panic(String, String),
}

/// Marker payload for deliberate cancellation of an operation by a scripted closure.
#[derive(Debug, Clone, Copy)]
pub struct ScriptCancel;

pub fn catch<T>(f: impl FnOnce() -> T) -> Caught<T> {
    take_last_panic();
    match panic::catch_unwind(AssertUnwindSafe(f)) {
        Ok(v) => Caught::Ok(v),
        Err(payload) => {
            if payload
                .downcast_ref::<rsbdd::verif_hooks::BudgetExhausted>()
                .is_some()
            {
                take_last_panic();
                Caught::Budget
            } else if payload.downcast_ref::<ScriptCancel>().is_some() {
                take_last_panic();
                Caught::Cancel
            } else {
                let (m, l) = take_last_panic().unwrap_or_else(|| {
                    let m = if let Some(s) = payload.downcast_ref::<&str>() {
                        (*s).to_string()
                    } else if let Some(s) = payload.downcast_ref::<String>() {
                        s.clone()
                    } else {
                        "<non-string panic payload>".to_string()
                    };
                    (m, "<unknown>".to_string())
                });
                Caught::Panic(m, l)
            }
        }
    }
}

/// Run `runs` simulated runs on `workers` threads. `one(run_index)` must be a pure
/// function of the run index (it derives its own PRNG from seed/sim id/index).
pub fn run_batch(
    runs: u64,
    workers: usize,
    wall_cap_s: f64,
    one: &(dyn Fn(u64) -> RunOutcome + Sync),
) -> BatchResult {
    let start = Instant::now();
    let next = AtomicU64::new(0);
    let stop = AtomicBool::new(false);
    // a tree that violates the property in thousands of runs has been judged: stop early
    let violating = AtomicU64::new(0);
    let violating_cap: u64 = 5000;
    let acc: Mutex<BatchResult> = Mutex::new(BatchResult::default());
    let chunk: u64 = 64;

    std::thread::scope(|scope| {
        for _ in 0..workers.max(1) {
            std::thread::Builder::new()
                .stack_size(1 << 30)
                .spawn_scoped(scope, || {
                    let mut local = BatchResult::default();
                    loop {
                        if stop.load(Ordering::Relaxed) {
                            break;
                        }
                        let lo = next.fetch_add(chunk, Ordering::Relaxed);
                        if lo >= runs {
                            break;
                        }
                        let hi = (lo + chunk).min(runs);
                        for r in lo..hi {
                            if stop.load(Ordering::Relaxed) {
                                break;
                            }
                            let out = one(r);
                            local.runs += 1;
                            for (k, v) in &out.stats {
                                *local.stats.entry(k.clone()).or_insert(0) += *v;
                            }
                            if out.nontrivial {
                                local.nontrivial_digests.insert(out.plan_digest);
                            }
                            for d in &out.state_digests {
                                local.state_digests.insert(*d);
                            }
                            local.trace_digest = local
                                .trace_digest
                                .wrapping_add(mix(&[r, out.plan_digest, out.trace_digest]));
                            if let Some(reason) = &out.unjudged {
                                *local.unjudged.entry(reason.clone()).or_insert(0) += 1;
                            }
                            local.ticks += out.ticks;
                            local.steps += out.steps;
                            if !out.violations.is_empty() {
                                local.violating_runs += 1;
                                if violating.fetch_add(1, Ordering::Relaxed) + 1 >= violating_cap {
                                    stop.store(true, Ordering::Relaxed);
                                }
                            }
                            for v in out.violations {
                                let class = v.class();
                                match local.violations.get(&class) {
                                    Some((r0, _)) if *r0 <= r => {}
                                    _ => {
                                        local.violations.insert(class, (r, v));
                                    }
                                }
                            }
                        }
                        if start.elapsed().as_secs_f64() > wall_cap_s {
                            stop.store(true, Ordering::Relaxed);
                            local.truncated = true;
                        }
                    }
                    let mut g = acc.lock().expect("batch accumulator poisoned");
                    g.runs += local.runs;
                    for (k, v) in local.stats {
                        *g.stats.entry(k).or_insert(0) += v;
                    }
                    g.nontrivial_digests.extend(local.nontrivial_digests);
                    g.state_digests.extend(local.state_digests);
                    g.trace_digest = g.trace_digest.wrapping_add(local.trace_digest);
                    for (k, v) in local.unjudged {
                        *g.unjudged.entry(k).or_insert(0) += v;
                    }
                    g.ticks += local.ticks;
                    g.steps += local.steps;
                    g.violating_runs += local.violating_runs;
                    g.truncated |= local.truncated;
                    for (class, (r, v)) in local.violations {
                        match g.violations.get(&class) {
                            Some((r0, _)) if *r0 <= r => {}
                            _ => {
                                g.violations.insert(class, (r, v));
                            }
                        }
                    }
                })
                .expect("cannot spawn worker");
        }
    });

    let mut res = acc.into_inner().expect("batch accumulator poisoned");
    res.wall_s = start.elapsed().as_secs_f64();
    res
}

/// Classic ddmin over a list; `test` returns true when the candidate still fails the same way.
pub fn ddmin<T: Clone>(items: Vec<T>, budget: &mut usize, test: &mut dyn FnMut(&[T]) -> bool) -> Vec<T> {
    let mut cur = items;
    let mut n = 2usize;
    while cur.len() >= 2 && *budget > 0 {
        let len = cur.len();
        let chunk = len.div_ceil(n);
        let mut reduced = false;
        // try complements (remove one chunk)
        let mut start = 0;
        while start < len && *budget > 0 {
            let end = (start + chunk).min(len);
            let cand: Vec<T> = cur[..start].iter().chain(cur[end..].iter()).cloned().collect();
            *budget -= 1;
            if !cand.is_empty() && test(&cand) {
                cur = cand;
                n = n.saturating_sub(1).max(2);
                reduced = true;
                break;
            }
            start = end;
        }
        if !reduced {
            if n >= len {
                break;
            }
            n = (n * 2).min(len);
        }
    }
    // final single-element removal pass
    let mut i = 0;
    while i < cur.len() && cur.len() > 1 && *budget > 0 {
        let mut cand = cur.clone();
        cand.remove(i);
        *budget -= 1;
        if test(&cand) {
            cur = cand;
        } else {
            i += 1;
        }
    }
    cur
}

pub fn worker_count() -> usize {
    std::env::var("VERIF_WORKERS")
        .ok()
        .and_then(|s| s.parse().ok())
        .unwrap_or_else(|| {
            std::thread::available_parallelism()
                .map(|n| n.get())
                .unwrap_or(8)
                .min(16)
        })
}

pub fn verif_seed() -> u64 {
    std::env::var("VERIF_SEED")
        .ok()
        .and_then(|s| s.trim().parse::<u64>().ok())
        .unwrap_or(20_260_927)
}

pub fn prng_for(seed: u64, sim_id: u64, run: u64) -> Prng {
    Prng::for_run(seed, sim_id, run)
}

pub type SharedStop = Arc<AtomicBool>;
