//! The only entropy source of the simulator: splitmix64 seeding + xoshiro256**.
//! Every choice of a run (plan generation) is drawn from one `Prng` that is a
//! pure function of (VERIF_SEED, simulator id, run index).

#[derive(Clone, Debug)]
pub struct Prng {
    s: [u64; 4],
}

pub fn splitmix64(state: &mut u64) -> u64 {
    *state = state.wrapping_add(0x9E37_79B9_7F4A_7C15);
    let mut z = *state;
    z = (z ^ (z >> 30)).wrapping_mul(0xBF58_476D_1CE4_E5B9);
    z = (z ^ (z >> 27)).wrapping_mul(0x94D0_49BB_1331_11EB);
    z ^ (z >> 31)
}

/// Mix several integers into one 64-bit value (used for per-run seeds and digests).
pub fn mix(parts: &[u64]) -> u64 {
    let mut st = 0x243F_6A88_85A3_08D3u64;
    let mut acc = 0u64;
    for p in parts {
        st ^= *p;
        acc = acc.rotate_left(17) ^ splitmix64(&mut st);
    }
    let mut f = acc ^ st;
    splitmix64(&mut f)
}

/// FNV-1a style digest over bytes, finalised through splitmix; never uses addresses.
pub fn digest_bytes(bytes: &[u8]) -> u64 {
    let mut h = 0xcbf2_9ce4_8422_2325u64;
    for b in bytes {
        h ^= u64::from(*b);
        h = h.wrapping_mul(0x0000_0100_0000_01B3);
    }
    let mut s = h;
    splitmix64(&mut s)
}

impl Prng {
    pub fn new(seed: u64) -> Self {
        let mut st = seed;
        let s = [
            splitmix64(&mut st),
            splitmix64(&mut st),
            splitmix64(&mut st),
            splitmix64(&mut st),
        ];
        Self { s }
    }

    pub fn for_run(verif_seed: u64, sim_id: u64, run: u64) -> Self {
        Self::new(mix(&[verif_seed, sim_id, run]))
    }

    pub fn next_u64(&mut self) -> u64 {
        let result = self.s[1].wrapping_mul(5).rotate_left(7).wrapping_mul(9);
        let t = self.s[1] << 17;
        self.s[2] ^= self.s[0];
        self.s[3] ^= self.s[1];
        self.s[1] ^= self.s[2];
        self.s[0] ^= self.s[3];
        self.s[2] ^= t;
        self.s[3] = self.s[3].rotate_left(45);
        result
    }

    /// Uniform in 0..n (n > 0). Slight modulo bias is irrelevant here.
    pub fn below(&mut self, n: usize) -> usize {
        if n <= 1 {
            // still consume one value so that plans do not shift when a bound is 1
            self.next_u64();
            return 0;
        }
        (self.next_u64() % (n as u64)) as usize
    }

    /// Uniform in lo..=hi.
    pub fn range(&mut self, lo: usize, hi: usize) -> usize {
        debug_assert!(lo <= hi);
        lo + self.below(hi - lo + 1)
    }

    pub fn range_i64(&mut self, lo: i64, hi: i64) -> i64 {
        lo + (self.next_u64() % ((hi - lo + 1) as u64)) as i64
    }

    /// True with probability num/den.
    pub fn chance(&mut self, num: usize, den: usize) -> bool {
        self.below(den) < num
    }

    pub fn coin(&mut self) -> bool {
        self.next_u64() & 1 == 1
    }

    pub fn pick<'a, T>(&mut self, items: &'a [T]) -> &'a T {
        &items[self.below(items.len())]
    }

    /// Index drawn with the given weights (at least one weight must be > 0).
    pub fn weighted(&mut self, weights: &[u32]) -> usize {
        let total: u64 = weights.iter().map(|w| u64::from(*w)).sum();
        if total == 0 {
            return self.below(weights.len());
        }
        let mut x = self.next_u64() % total;
        for (i, w) in weights.iter().enumerate() {
            let w = u64::from(*w);
            if x < w {
                return i;
            }
            x -= w;
        }
        weights.len() - 1
    }

    pub fn shuffle<T>(&mut self, v: &mut [T]) {
        for i in (1..v.len()).rev() {
            let j = self.below(i + 1);
            v.swap(i, j);
        }
    }

    pub fn bytes(&mut self, n: usize) -> Vec<u8> {
        (0..n).map(|_| (self.next_u64() & 0xff) as u8).collect()
    }
}

#[cfg(test)]
mod tests {
    use super::*;
    #[test]
    fn per_run_streams_look_independent() {
        // first coin of 20000 consecutive runs: about half heads, and no pairing between neighbours
        let mut heads = 0;
        let mut same_as_prev = 0;
        let mut prev = false;
        for run in 0..20000u64 {
            let mut r = Prng::for_run(20_260_927, 3114, run);
            let c = r.coin();
            if c {
                heads += 1;
            }
            if run > 0 && c == prev {
                same_as_prev += 1;
            }
            prev = c;
        }
        assert!((9700..=10300).contains(&heads), "heads {heads}");
        assert!((9700..=10300).contains(&same_as_prev), "same {same_as_prev}");
        // below(5) is uniform
        let mut counts = [0usize; 5];
        for run in 0..20000u64 {
            let mut r = Prng::for_run(1, 2, run);
            counts[r.below(5)] += 1;
        }
        for c in counts {
            assert!((3700..=4300).contains(&c), "counts {counts:?}");
        }
    }
}
