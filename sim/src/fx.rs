//! FxHasher (rustc-hash 1.1, unseeded) re-implemented so that the simulator can CONSTRUCT inputs
//! whose 64-bit hashes collide on purpose (`hash-collision` fault): variable ids for which two small
//! diagrams have the same `get_hash()`, and pairs of identifier-like names with the same string hash.
//! On the unchanged tree such collisions are harmless (identity is structural / by string); code that
//! starts to use a hash as identity is exposed by them, and random sampling would never find them.

pub const K: u64 = 0x517c_c1b7_2722_0a95;

/// multiplicative inverse of K modulo 2^64
pub fn k_inv() -> u64 {
    // Newton iteration: x <- x * (2 - K x)
    let mut x: u64 = K; // correct to 3 bits since K is odd
    for _ in 0..6 {
        x = x.wrapping_mul(2u64.wrapping_sub(K.wrapping_mul(x)));
    }
    x
}

pub fn step(h: u64, word: u64) -> u64 {
    (h.rotate_left(5) ^ word).wrapping_mul(K)
}

pub fn hash_words(words: &[u64]) -> u64 {
    words.iter().fold(0u64, |h, w| step(h, *w))
}

/// Hash of a `str` as `impl Hash for str` feeds it to FxHasher: 8-byte little-endian words, then a
/// 4-, 2-, 1-byte tail, then the 0xff terminator.
pub fn hash_str(s: &str) -> u64 {
    let mut h = 0u64;
    let mut b = s.as_bytes();
    while b.len() >= 8 {
        h = step(h, u64::from_le_bytes(b[..8].try_into().expect("8 bytes")));
        b = &b[8..];
    }
    if b.len() >= 4 {
        h = step(h, u64::from(u32::from_le_bytes(b[..4].try_into().expect("4 bytes"))));
        b = &b[4..];
    }
    if b.len() >= 2 {
        h = step(h, u64::from(u16::from_le_bytes(b[..2].try_into().expect("2 bytes"))));
        b = &b[2..];
    }
    if !b.is_empty() {
        h = step(h, u64::from(b[0]));
    }
    step(h, 0xff)
}

/// The variable id M (as a usize symbol) for which the diagram `x_M` = Choice(True, M, False)
/// has the same derived hash as `not x_j` = Choice(False, j, True).
/// Derived Hash of BDD: discriminant word, then the fields; leaves are their discriminant only
/// (False = 0, True = 1, Choice = 2).
pub fn id_colliding_with_negated(j: u64) -> u64 {
    let target = hash_words(&[2, 0, j, 1]); // Choice(False, j, True)
    // hash_words([2, 1, M, 0]) = step(step(s1, M), 0) with s1 = hash_words([2, 1])
    let s1 = hash_words(&[2, 1]);
    // step(s2, 0) = rotl(s2, 5) * K = target  =>  s2 = rotr(target * K^-1, 5)
    let s2 = target.wrapping_mul(k_inv()).rotate_right(5);
    // step(s1, M) = (rotl(s1, 5) ^ M) * K = s2  =>  M = rotl(s1, 5) ^ (s2 * K^-1)
    s1.rotate_left(5) ^ s2.wrapping_mul(k_inv())
}

/// Pairs of distinct 9-character identifier-like names with equal `hash_str` sharing the given
/// 7-character prefix (they differ in the 8th and 9th character).
pub fn colliding_names_9(prefix7: &str) -> Vec<(String, String)> {
    assert_eq!(prefix7.len(), 7);
    let alphabet: Vec<u8> = (b'0'..=b'9').chain(b'a'..=b'z').chain(b'A'..=b'Z').chain([b'_']).collect();
    let mut seen: std::collections::HashMap<u64, String> = std::collections::HashMap::new();
    let mut out = Vec::new();
    for c8 in &alphabet {
        for c9 in &alphabet {
            let name = format!("{prefix7}{}{}", *c8 as char, *c9 as char);
            let h = hash_str(&name);
            if let Some(other) = seen.get(&h) {
                out.push((other.clone(), name.clone()));
            } else {
                seen.insert(h, name);
            }
        }
    }
    out
}

/// Pairs of distinct 16-character identifier-like names after which the hasher state is identical
/// (so that any continuation hashes the same). `first` fixes the first name.
pub fn colliding_names_16(first: &str, tries: u64) -> Option<(String, String)> {
    assert_eq!(first.len(), 16);
    let b = first.as_bytes();
    let w1 = u64::from_le_bytes(b[..8].try_into().expect("8"));
    let w2 = u64::from_le_bytes(b[8..].try_into().expect("8"));
    let key = step(0, w1).rotate_left(5) ^ w2; // state after two words is key * K
    let alphabet: Vec<u8> = (b'0'..=b'9').chain(b'a'..=b'z').collect();
    let ok = |x: u8| x.is_ascii_alphanumeric() || x == b'_';
    // vary the first word over identifier-like strings, solve for the second word
    let mut st = 0x1234_5678u64;
    for _ in 0..tries {
        let mut w1b = [0u8; 8];
        for x in w1b.iter_mut() {
            st = st.wrapping_mul(6364136223846793005).wrapping_add(1442695040888963407);
            *x = alphabet[((st >> 33) % alphabet.len() as u64) as usize];
        }
        if w1b[0].is_ascii_digit() {
            w1b[0] = b'q';
        }
        let w1p = u64::from_le_bytes(w1b);
        if w1p == w1 {
            continue;
        }
        let w2p = step(0, w1p).rotate_left(5) ^ key;
        let w2b = w2p.to_le_bytes();
        if w2b.iter().all(|x| ok(*x)) {
            let mut name = String::from_utf8(w1b.to_vec()).expect("ascii");
            name.push_str(&String::from_utf8(w2b.to_vec()).expect("ascii"));
            return Some((first.to_string(), name));
        }
    }
    None
}

#[cfg(test)]
mod tests {
    use super::*;
    use rustc_hash_check::*;

    mod rustc_hash_check {
        // the real hasher, through rsbdd's own get_hash()
        pub use rsbdd::bdd::BDD;
        pub use std::rc::Rc;
    }

    #[test]
    fn k_inverse() {
        assert_eq!(K.wrapping_mul(k_inv()), 1);
    }

    #[test]
    fn diagram_collision_is_real() {
        for j in [1u64, 2, 5, 17] {
            let m = id_colliding_with_negated(j) as usize;
            let neg: BDD<usize> = BDD::Choice(Rc::new(BDD::False), j as usize, Rc::new(BDD::True));
            let pos: BDD<usize> = BDD::Choice(Rc::new(BDD::True), m, Rc::new(BDD::False));
            assert_eq!(neg.get_hash(), pos.get_hash(), "j={j} m={m}");
            assert_ne!(neg, pos);
        }
    }

    #[test]
    fn name_collisions_are_real() {
        use std::hash::{Hash, Hasher};
        let real = |s: &str| {
            let mut h = rustc_hash::FxHasher::default();
            s.hash(&mut h);
            h.finish()
        };
        let pairs = colliding_names_9("reqst_x");
        assert!(!pairs.is_empty());
        for (a, b) in pairs.iter().take(5) {
            assert_ne!(a, b);
            assert_eq!(real(a), real(b), "{a} {b}");
        }
        let (a, b) = colliding_names_16("vertex_name_0001", 5_000_000).expect("a 16-byte collision");
        assert_ne!(a, b);
        // states agree after 16 bytes, so any common continuation agrees too
        assert_eq!(real(&format!("{a}tail")), real(&format!("{b}tail")));
    }
}
