//! Allocation-address seam of the simulator: a global allocator that delegates to the system
//! allocator except when a run has asked for the `address-alias` fault. Then the next few
//! allocations of one exact size made by the asking thread are placed at addresses that agree in
//! their low 32 bits (one per 4 GiB slab of a lazily committed arena), which is what two nodes of
//! a diagram look like in a process whose heap spans more than 4 GiB. Code that truncates a node
//! address to 32 bits (the library's own `duplicates()` did) confuses such nodes.
//!
//! Placed blocks are never reused (freeing one is a no-op): 64 bytes of address space per block.

use std::alloc::{GlobalAlloc, Layout, System};
use std::cell::Cell;
use std::sync::atomic::{AtomicUsize, Ordering};

pub struct SimAlloc;

const SLAB: usize = 1 << 32;
/// slabs available for mutually aliased blocks
pub const SLABS: usize = 3;
const STRIDE: usize = 64;

#[derive(Clone, Copy)]
struct Request {
    size: usize,
    /// allocations of that size still to be let through untouched
    skip: u32,
    /// how many have been placed so far (the k-th goes to slab k)
    placed: u32,
    /// how many to place in total (<= SLABS)
    want: u32,
    /// offset inside every slab (0 = not chosen yet)
    offset: usize,
}

thread_local! {
    static REQUEST: Cell<Option<Request>> = const { Cell::new(None) };
    static LAST_PLACED: Cell<u32> = const { Cell::new(0) };
}

/// 0 = not reserved yet, 1 = reservation failed, otherwise the 4 GiB-aligned start of slab 0
static ARENA: AtomicUsize = AtomicUsize::new(0);
static ARENA_END: AtomicUsize = AtomicUsize::new(0);
static NEXT_OFFSET: AtomicUsize = AtomicUsize::new(STRIDE);

fn arena() -> Option<usize> {
    match ARENA.load(Ordering::Acquire) {
        0 => {
            // (SLABS + 1) * 4 GiB of address space, never touched except where a block is placed
            let bytes = (SLABS + 1) * SLAB;
            let layout = Layout::from_size_align(bytes, 4096).ok()?;
            // SAFETY: non-zero size; the block is kept for the life of the process
            let p = unsafe { System.alloc(layout) } as usize;
            if p == 0 {
                ARENA.store(1, Ordering::Release);
                return None;
            }
            let start = (p + SLAB - 1) & !(SLAB - 1);
            match ARENA.compare_exchange(0, start, Ordering::AcqRel, Ordering::Acquire) {
                Ok(_) => {
                    ARENA_END.store(start + SLABS * SLAB, Ordering::Release);
                    Some(start)
                }
                Err(other) => {
                    // another thread was faster; give ours back
                    // SAFETY: allocated above with the same layout, never used
                    unsafe { System.dealloc(p as *mut u8, layout) };
                    if other > 1 {
                        Some(other)
                    } else {
                        None
                    }
                }
            }
        }
        1 => None,
        a => Some(a),
    }
}

fn in_arena(p: usize) -> bool {
    let a = ARENA.load(Ordering::Acquire);
    a > 1 && p >= a && p < ARENA_END.load(Ordering::Acquire)
}

// SAFETY: every block handed out is either the system allocator's or a never-reused, suitably
// aligned, STRIDE-sized piece of the arena that nothing else refers to.
unsafe impl GlobalAlloc for SimAlloc {
    unsafe fn alloc(&self, layout: Layout) -> *mut u8 {
        if let Ok(Some(mut r)) = REQUEST.try_with(|c| c.get()) {
            if layout.size() == r.size && layout.size() <= STRIDE && layout.align() <= STRIDE {
                if r.skip > 0 {
                    r.skip -= 1;
                    let _ = REQUEST.try_with(|c| c.set(Some(r)));
                } else if let Some(base) = arena() {
                    if r.offset == 0 {
                        let off = NEXT_OFFSET.fetch_add(STRIDE, Ordering::Relaxed);
                        if off + STRIDE >= SLAB {
                            let _ = REQUEST.try_with(|c| c.set(None));
                            return System.alloc(layout);
                        }
                        r.offset = off;
                    }
                    let addr = base + (r.placed as usize) * SLAB + r.offset;
                    r.placed += 1;
                    let _ = LAST_PLACED.try_with(|c| c.set(r.placed));
                    let _ = REQUEST.try_with(|c| c.set(if r.placed >= r.want { None } else { Some(r) }));
                    PLACED.fetch_add(1, Ordering::Relaxed);
                    return addr as *mut u8;
                } else {
                    let _ = REQUEST.try_with(|c| c.set(None));
                }
            }
        }
        System.alloc(layout)
    }

    unsafe fn dealloc(&self, ptr: *mut u8, layout: Layout) {
        if in_arena(ptr as usize) {
            return;
        }
        System.dealloc(ptr, layout)
    }
}

static PLACED: AtomicUsize = AtomicUsize::new(0);

/// Ask that, after `skip` further allocations of exactly `size` bytes by this thread, the next
/// `want` (2..=SLABS) ones be placed at addresses with equal low 32 bits.
pub fn request_alias(size: usize, skip: u32, want: u32) {
    let want = want.clamp(2, SLABS as u32);
    LAST_PLACED.with(|c| c.set(0));
    REQUEST.with(|c| {
        c.set(Some(Request {
            size,
            skip,
            placed: 0,
            want,
            offset: 0,
        }))
    });
}

/// Withdraw a pending request.
pub fn cancel_alias() {
    REQUEST.with(|c| c.take());
    LAST_PLACED.with(|c| c.set(0));
}

/// Withdraw a pending request; returns how many blocks were placed for the latest request of
/// this thread (whether it completed or not).
pub fn cancel_alias_placed() -> u32 {
    REQUEST.with(|c| c.take());
    LAST_PLACED.with(|c| c.replace(0))
}

/// Size of the allocation `Rc::new(value: T)` makes (two counters in front of the value).
pub fn rc_block_size<T>() -> usize {
    let a = std::mem::align_of::<T>().max(std::mem::align_of::<usize>());
    let head = (2 * std::mem::size_of::<usize>() + a - 1) / a * a;
    (head + std::mem::size_of::<T>() + a - 1) / a * a
}

/// True when two pointers differ but agree in their low 32 bits.
pub fn aliased<T>(a: *const T, b: *const T) -> bool {
    a != b && (a as usize as u32) == (b as usize as u32)
}

/// Checks once that the seam works in this process: two `Rc<T>` made under a request are aliased.
pub fn selftest<T: Default>() -> bool {
    use std::rc::Rc;
    request_alias(rc_block_size::<T>(), 0, 2);
    let x = Rc::new(T::default());
    let y = Rc::new(T::default());
    cancel_alias();
    let ok = aliased(Rc::as_ptr(&x), Rc::as_ptr(&y));
    drop(x);
    drop(y);
    ok
}
