//! rsbdd-dst — deterministic simulation with fault injection for timbeurskens/rsbdd.
//!
//!   rsbdd-dst check <Cxx> <quick|thorough>
//!   rsbdd-dst replay <file>
//!   rsbdd-dst digest <Cxx> <runs>        (determinism self-test helper)

#![allow(dead_code)]

mod alloc;
mod core;
mod faultio;
mod fx;
mod inputs;
mod model;
mod prng;
mod report;
mod sims;

use std::path::PathBuf;
use std::time::Instant;

use serde_json::{json, Value};

use crate::core::{run_batch, verif_seed, worker_count, RunOutcome, Violation};
use crate::report::{is_known, load_known_findings, write_evidence, write_replay, Evidence, Part, ReplayFile};

/// A simulator bound to one property.
pub trait Simulator: Sync {
    fn name(&self) -> &'static str;
    fn rule(&self) -> String;
    fn components_real(&self) -> Vec<String>;
    fn components_stub(&self) -> Vec<String>;
    /// default number of runs for the tier
    fn runs(&self, thorough: bool) -> u64;
    /// generate the plan of run `run` and execute it
    fn run_one(&self, seed: u64, run: u64) -> RunOutcome;
    /// the plan of run `run`, as JSON (for samples)
    fn plan_json(&self, seed: u64, run: u64) -> Value;
    /// minimise the failing plan of run `run`; returns (plan, violation, original step count)
    fn minimise(&self, seed: u64, run: u64, v: &Violation) -> (Value, Violation, usize);
    /// execute a recorded plan
    fn replay(&self, plan: &Value) -> RunOutcome;
}

fn simulators_for(property: &str, thorough: bool) -> Vec<Box<dyn Simulator>> {
    match property {
        "C13" | "C19" | "C02" => vec![Box::new(sims::envsim_driver::EnvSimDriver::new(property, thorough))],
        "C12" => vec![
            Box::new(sims::iosim_driver::IoSimDriver::new(property)),
            Box::new(sims::clisim_driver::CliRobustDriver),
        ],
        "C10" => vec![
            Box::new(sims::clisim_driver::CliTableDriver::new(property, thorough)),
            Box::new(sims::iosim_driver::IoSimDriver::new(property)),
        ],
        "C11" => vec![Box::new(sims::clisim_driver::CliTableDriver::new(property, thorough))],
        "C18" => vec![Box::new(sims::rgsim_driver::RgSimDriver)],
        "C14" => vec![
            Box::new(sims::dotsim_driver::DotSimDriver),
            Box::new(sims::clisim_driver::CliExportDriver),
        ],
        _ => vec![],
    }
}

fn simulator_by_name(property: &str, name: &str) -> Option<Box<dyn Simulator>> {
    simulators_for(property, false).into_iter().find(|s| s.name() == name)
}

fn usage() -> ! {
    eprintln!("usage: rsbdd-dst check <Cxx> <quick|thorough> | replay <file> | digest <Cxx> <runs>");
    std::process::exit(2);
}

#[global_allocator]
static GLOBAL: alloc::SimAlloc = alloc::SimAlloc;

fn main() {
    core::install_quiet_panic_hook();
    let args: Vec<String> = std::env::args().collect();
    if args.len() < 2 {
        usage();
    }
    match args[1].as_str() {
        "check" if args.len() >= 4 => check(&args[2], &args[3]),
        "replay" if args.len() >= 3 => replay(&PathBuf::from(&args[2])),
        "digest" if args.len() >= 4 => digest(&args[2], args[3].parse().unwrap_or(1000)),
        // helpers used by ./check when a batch dies by a signal (abort, stack overflow):
        "one" if args.len() >= 6 => one(&args[2], &args[3], &args[4], args[5].parse().unwrap_or(0)),
        "abort-replay" if args.len() >= 6 => abort_replay(&args[2], &args[3], &args[4], args[5].parse().unwrap_or(0)),
        _ => usage(),
    }
}

/// Execute exactly one run (same plan as in the batch); exit 0 unless the process dies.
fn one(property: &str, tier: &str, simname: &str, run: u64) {
    let seed = verif_seed();
    let thorough = tier == "thorough";
    if let Some(sim) = simulators_for(property, thorough).into_iter().find(|s| s.name() == simname) {
        let out = sim.run_one(seed, run);
        println!("run {run}: {} violation(s)", out.violations.len());
    }
    std::process::exit(0);
}

/// Write a replay file for a run that kills the process (no in-process minimisation is possible).
fn abort_replay(property: &str, tier: &str, simname: &str, run: u64) {
    let seed = verif_seed();
    let thorough = tier == "thorough";
    let Some(sim) = simulators_for(property, thorough).into_iter().find(|s| s.name() == simname) else {
        std::process::exit(2);
    };
    let path = write_replay(&ReplayFile {
        format: 1,
        property: property.to_string(),
        simulator: simname.to_string(),
        seed,
        run,
        minimised: false,
        original_steps: 0,
        violation: Violation {
            property: property.to_string(),
            oracle: "ABORT".into(),
            site: "process-killed".into(),
            step: usize::MAX,
            detail: "executing this plan kills the process (abort: allocation failure, stack overflow or double panic) instead of returning".into(),
        },
        plan: sim.plan_json(seed, run),
    });
    println!("{}", path.display());
    std::process::exit(0);
}

thread_local! {
    static WORKER_SLOT: std::cell::Cell<usize> = const { std::cell::Cell::new(usize::MAX) };
}
static NEXT_SLOT: std::sync::atomic::AtomicUsize = std::sync::atomic::AtomicUsize::new(0);

/// Records which run each worker is executing right now, so that ./check can find the run that
/// killed the process. One 8-byte slot per worker thread in $RSBDD_DST_INFLIGHT.<simulator>.
struct Inflight {
    file: Option<std::fs::File>,
}

impl Inflight {
    fn new(simname: &str) -> Self {
        let file = std::env::var("RSBDD_DST_INFLIGHT").ok().and_then(|p| {
            let f = std::fs::OpenOptions::new().create(true).write(true).truncate(true).open(format!("{p}.{simname}")).ok()?;
            use std::os::unix::fs::FileExt;
            for i in 0..64u64 {
                let _ = f.write_at(&u64::MAX.to_le_bytes(), i * 8);
            }
            Some(f)
        });
        NEXT_SLOT.store(0, std::sync::atomic::Ordering::SeqCst);
        Self { file }
    }
    fn record(&self, run: u64) {
        if let Some(f) = &self.file {
            use std::os::unix::fs::FileExt;
            let slot = WORKER_SLOT.with(|s| {
                if s.get() == usize::MAX {
                    s.set(NEXT_SLOT.fetch_add(1, std::sync::atomic::Ordering::SeqCst) % 64);
                }
                s.get()
            });
            let _ = f.write_at(&run.to_le_bytes(), slot as u64 * 8);
        }
    }
}

fn digest(property: &str, runs: u64) {
    let seed = verif_seed();
    for sim in simulators_for(property, std::env::var("VERIF_TIER").map(|t| t == "thorough").unwrap_or(false)) {
        let b = run_batch(runs, worker_count(), 1e9, &|r| sim.run_one(seed, r));
        println!(
            "{} {} runs={} trace={:016x} nontrivial={} states={} violations={}",
            property,
            sim.name(),
            b.runs,
            b.trace_digest,
            b.nontrivial_digests.len(),
            b.state_digests.len(),
            b.violations.len()
        );
    }
}

fn check(property: &str, tier: &str) {
    let thorough = match tier {
        "quick" => false,
        "thorough" => true,
        _ => usage(),
    };
    let seed = verif_seed();
    let start = Instant::now();
    println!("VERIF_SEED={seed} property={property} tier={tier} workers={}", worker_count());
    let sims = simulators_for(property, thorough);
    if sims.is_empty() {
        eprintln!("harness error: no simulator serves property {property}");
        std::process::exit(2);
    }
    let known = load_known_findings();
    let mut parts: Vec<Part> = Vec::new();
    let mut violation_lines: Vec<String> = Vec::new();
    let mut known_lines: Vec<String> = Vec::new();
    let wall_cap = if thorough { 3000.0 } else { 600.0 };

    for sim in &sims {
        let runs = std::env::var("VERIF_RUNS")
            .ok()
            .and_then(|s| s.parse::<u64>().ok())
            .unwrap_or_else(|| sim.runs(thorough));
        let inflight = Inflight::new(sim.name());
        let prop_owned = property.to_string();
        let batch = run_batch(runs, worker_count(), wall_cap, &|r| {
            inflight.record(r);
            // a panic that escapes a run: inside the code under test it is a violation (the harness
            // called the library outside one of its guarded operation steps); inside the simulator's
            // own sources it is a bug of the machinery
            match core::catch(|| sim.run_one(seed, r)) {
                core::Caught::Ok(out) => out,
                core::Caught::Panic(m, l) => {
                    // the simulator's own sources (its crate is compiled with relative paths)
                    let own = ["src/sims/", "src/model/", "src/core.rs", "src/main.rs", "src/faultio.rs", "src/inputs.rs", "src/prng.rs", "src/report.rs", "src/fx.rs"];
                    if own.iter().any(|o| l.starts_with(o)) || l.starts_with("sim/src") || l.starts_with("simsrc/") || l.contains("/sim/src/") {
                        println!("HARNESS-ERROR: the simulator itself panicked in run {r}: {m} @ {l}");
                        std::process::exit(2);
                    }
                    let mut out = RunOutcome::default();
                    out.violations.push(Violation {
                        property: prop_owned.clone(),
                        oracle: "PANIC".into(),
                        site: l.clone(),
                        step: usize::MAX,
                        detail: format!("a library call made by the simulator outside a guarded operation step panicked: {m} @ {l}"),
                    });
                    out
                }
                _ => RunOutcome::default(),
            }
        });
        println!(
            "[{}] runs={} nontrivial-distinct={} states={} ticks={} violating-runs={} classes={} wall={:.1}s",
            sim.name(),
            batch.runs,
            batch.nontrivial_digests.len(),
            batch.state_digests.len(),
            batch.ticks,
            batch.violating_runs,
            batch.violations.len(),
            batch.wall_s
        );
        // report at most ten classes, lowest run index first within the class
        let mut reported: std::collections::BTreeSet<String> = Default::default();
        for (class, (run, v)) in batch.violations.iter() {
            if reported.len() >= 10 {
                break;
            }
            if let Some(k) = is_known(&known, v) {
                let line = format!("KNOWN-FINDING: property={} oracle={} site={} {}", k.property, k.oracle, k.site, k.description);
                if !known_lines.contains(&line) {
                    known_lines.push(line);
                }
                continue;
            }
            let (plan, mv, original_steps) = match core::catch(|| sim.minimise(seed, *run, v)) {
                core::Caught::Ok(x) => x,
                // a plan whose execution panics outside a guarded step cannot be minimised in process
                _ => (sim.plan_json(seed, *run), v.clone(), 0),
            };
            // several detection sites often minimise to the same failure: report it once
            if !reported.insert(mv.class()) {
                continue;
            }
            // the minimised plan must reproduce in this process before it is written
            let reproduced = match core::catch(|| sim.replay(&plan)) {
                core::Caught::Ok(again) => again.violations.iter().any(|x| x.property == mv.property && x.oracle == mv.oracle),
                core::Caught::Panic(..) => mv.oracle == "PANIC",
                _ => false,
            };
            let (plan, mv, minimised) = if reproduced {
                (plan, mv, true)
            } else {
                // The violation was observed in the batch but does not show again when its plan is
                // re-executed here. Everything the simulator decides is replayed exactly, so what
                // differs is something it does not own: the allocator's choice of addresses (S6).
                // Report the unminimised plan and say so, rather than hiding a violation that was seen.
                println!("NOTE: class {class} (run {run}) was observed in the batch but did not show again when re-executed in this process; it depends on state the simulator does not control (allocation addresses). The unminimised plan is written as replay file.");
                (sim.plan_json(seed, *run), v.clone(), false)
            };
            let path = write_replay(&ReplayFile {
                format: 1,
                property: property.to_string(),
                simulator: sim.name().to_string(),
                seed,
                run: *run,
                minimised,
                original_steps,
                violation: mv.clone(),
                plan,
            });
            println!("violation class {class}: run {run}, step {}: {}", mv.step, mv.detail);
            violation_lines.push(format!("VIOLATION property={} replay={}", property, path.display()));
        }
        // determinism self-check: a slice of the batch executed twice more, with 2 workers and with
        // all workers; the per-run outcomes (plan digest, trace digest) must agree exactly
        let slice = (runs / 100).clamp(50, if thorough { 5000 } else { 500 }).min(runs);
        let a = run_batch(slice, 2, 600.0, &|r| sim.run_one(seed, r));
        let b = run_batch(slice, worker_count(), 600.0, &|r| sim.run_one(seed, r));
        let det_ok = a.trace_digest == b.trace_digest && a.nontrivial_digests == b.nontrivial_digests && a.violating_runs == b.violating_runs;
        if !det_ok && batch.violations.is_empty() {
            println!("HARNESS-ERROR: determinism self-check failed for {} (slice of {slice} runs: digests {:016x} vs {:016x})", sim.name(), a.trace_digest, b.trace_digest);
            std::process::exit(2);
        }
        let mut extra: std::collections::BTreeMap<String, Value> = Default::default();
        extra.insert(
            "determinism_selfcheck".into(),
            json!({"slice_runs": slice, "executions": 2, "worker_counts": [2, worker_count()], "batch_trace_digest": format!("{:016x}", a.trace_digest), "identical": det_ok}),
        );
        let mut samples = Vec::new();
        for r in [0u64, 1, runs / 2] {
            if r < runs {
                samples.push(sim.plan_json(seed, r));
            }
        }
        parts.push(Part {
            simulator: sim.name().to_string(),
            batch,
            rule: sim.rule(),
            samples,
            components_real: sim.components_real(),
            components_stub: sim.components_stub(),
            extra,
        });
    }

    for l in &known_lines {
        println!("{l}");
    }
    for l in &violation_lines {
        println!("{l}");
    }
    let timeouts = sims::rgsim::CHILD_TIMEOUTS.load(std::sync::atomic::Ordering::Relaxed);
    if timeouts > 0 {
        println!("NOTE: {timeouts} child process(es) exceeded the {} s wall-clock limit, were killed and are not judged", sims::rgsim::CHILD_WALL_LIMIT_S);
    }
    let wall = start.elapsed().as_secs_f64();
    write_evidence(&Evidence {
        property,
        tier,
        seed,
        parts: &parts,
        assumptions: assumptions_for(property),
        violations: violation_lines.len(),
        known_findings: known_lines.clone(),
        wall_s: wall,
        determinism: None,
    });
    let _ = std::fs::remove_dir_all(format!("/dev/shm/rsbdd-dst-{}", std::process::id()));
    if violation_lines.is_empty() {
        println!("OK property={property} tier={tier} wall={wall:.1}s");
        std::process::exit(0);
    }
    std::process::exit(1);
}

fn replay(path: &PathBuf) {
    let rf = report::read_replay(path);
    let Some(sim) = simulator_by_name(&rf.property, &rf.simulator) else {
        eprintln!("harness error: unknown simulator {} for {}", rf.simulator, rf.property);
        std::process::exit(2);
    };
    let out = match core::catch(|| sim.replay(&rf.plan)) {
        core::Caught::Ok(o) => o,
        core::Caught::Panic(m, l) => {
            println!("replayed: a library call outside a guarded step panicked: {m} @ {l}");
            println!("VIOLATION property={} replay={}", rf.property, path.display());
            std::process::exit(1);
        }
        _ => RunOutcome::default(),
    };
    match out
        .violations
        .iter()
        .find(|v| v.property == rf.violation.property && v.oracle == rf.violation.oracle)
    {
        Some(v) => {
            println!("replayed: oracle {} at step {}: {}", v.oracle, v.step, v.detail);
            println!("VIOLATION property={} replay={}", rf.property, path.display());
            std::process::exit(1);
        }
        None => {
            println!(
                "replay of {} did not reproduce {} / {} on this tree (violations seen: {:?})",
                path.display(),
                rf.violation.property,
                rf.violation.oracle,
                out.violations.iter().map(|v| v.class()).collect::<Vec<_>>()
            );
            std::process::exit(0);
        }
    }
}

fn assumptions_for(property: &str) -> Vec<String> {
    let mut v = vec![
        "sampling, not enumeration: a clean batch is evidence, not proof".to_string(),
        "code under test built from /repo's working tree, optimised, overflow-checks on, --cfg rsbdd_verif".to_string(),
        "the reference models (truth tables as bitsets, canonical-diagram builder, BTreeSet) are trusted".to_string(),
    ];
    match property {
        "C13" | "C02" | "C19" => v.push("histories are bounded: <= 6 variables, <= 60 steps, <= 4 clients; operands are always diagrams interned in the shared environment".to_string()),
        _ => {}
    }
    let _ = json!(null);
    v
}
