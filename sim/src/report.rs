//! Evidence files, replay files, known findings.

use std::collections::BTreeMap;
use std::fs;
use std::path::{Path, PathBuf};

use serde::{Deserialize, Serialize};
use serde_json::{json, Value};

use crate::core::{BatchResult, Violation};

pub fn verif_dir() -> PathBuf {
    std::env::var("VERIF_DIR")
        .map(PathBuf::from)
        .unwrap_or_else(|_| PathBuf::from("/verif"))
}

#[derive(Clone, Debug, Serialize, Deserialize)]
pub struct KnownFinding {
    /// "known" (recorded, suppresses exactly this class) or "fixed" (suppresses nothing)
    pub status: String,
    pub property: String,
    pub oracle: String,
    pub site: String,
    pub description: String,
    #[serde(default)]
    pub commit: Option<String>,
}

pub fn load_known_findings() -> Vec<KnownFinding> {
    let p = verif_dir().join("known_findings.json");
    match fs::read_to_string(&p) {
        Ok(s) => serde_json::from_str(&s).unwrap_or_else(|e| {
            eprintln!("harness error: cannot parse {}: {e}", p.display());
            std::process::exit(2);
        }),
        Err(_) => Vec::new(),
    }
}

pub fn is_known(known: &[KnownFinding], v: &Violation) -> Option<KnownFinding> {
    known
        .iter()
        .find(|k| k.status == "known" && k.property == v.property && k.oracle == v.oracle && k.site == v.site)
        .cloned()
}

#[derive(Clone, Debug, Serialize, Deserialize)]
pub struct ReplayFile {
    pub format: u32,
    pub property: String,
    pub simulator: String,
    pub seed: u64,
    pub run: u64,
    pub minimised: bool,
    pub original_steps: usize,
    pub violation: Violation,
    pub plan: Value,
}

pub fn write_replay(r: &ReplayFile) -> PathBuf {
    let dir = verif_dir().join("replays");
    let _ = fs::create_dir_all(&dir);
    let site: String = r
        .violation
        .site
        .chars()
        .map(|c| if c.is_ascii_alphanumeric() { c } else { '_' })
        .take(40)
        .collect();
    let path = dir.join(format!(
        "{}-{}-{}-{}-{}.json",
        r.property, r.simulator, r.violation.oracle, site, r.seed
    ));
    let s = serde_json::to_string_pretty(r).expect("replay serialises");
    if let Err(e) = fs::write(&path, s) {
        eprintln!("harness error: cannot write {}: {e}", path.display());
        std::process::exit(2);
    }
    path
}

pub fn read_replay(path: &Path) -> ReplayFile {
    let s = fs::read_to_string(path).unwrap_or_else(|e| {
        eprintln!("harness error: cannot read {}: {e}", path.display());
        std::process::exit(2);
    });
    serde_json::from_str(&s).unwrap_or_else(|e| {
        eprintln!("harness error: cannot parse {}: {e}", path.display());
        std::process::exit(2);
    })
}

/// One simulator's contribution to a check.
pub struct Part {
    pub simulator: String,
    pub batch: BatchResult,
    pub rule: String,
    pub samples: Vec<Value>,
    pub components_real: Vec<String>,
    pub components_stub: Vec<String>,
    pub extra: BTreeMap<String, Value>,
}

pub struct Evidence<'a> {
    pub property: &'a str,
    pub tier: &'a str,
    pub seed: u64,
    pub parts: &'a [Part],
    pub assumptions: Vec<String>,
    pub violations: usize,
    pub known_findings: Vec<String>,
    pub wall_s: f64,
    pub determinism: Option<Value>,
}

pub fn write_evidence(e: &Evidence) {
    let mut evaluations = 0u64;
    let mut distinct = 0u64;
    let mut rules = Vec::new();
    let mut samples: Vec<Value> = Vec::new();
    let mut per_sim = serde_json::Map::new();
    let mut faults: BTreeMap<String, u64> = BTreeMap::new();
    let mut probes: BTreeMap<String, u64> = BTreeMap::new();
    let mut ops: BTreeMap<String, u64> = BTreeMap::new();
    let mut real: Vec<String> = Vec::new();
    let mut stub: Vec<String> = Vec::new();
    let mut truncated = false;
    for p in e.parts {
        evaluations += p.batch.runs;
        distinct += p.batch.nontrivial_digests.len() as u64;
        rules.push(format!("[{}] {}", p.simulator, p.rule));
        for s in &p.samples {
            samples.push(json!({"simulator": p.simulator, "case": s}));
        }
        truncated |= p.batch.truncated;
        let mut other: BTreeMap<String, u64> = BTreeMap::new();
        for (k, v) in &p.batch.stats {
            if let Some(f) = k.strip_prefix("fault.") {
                *faults.entry(f.to_string()).or_insert(0) += *v;
            } else if let Some(f) = k.strip_prefix("probe.") {
                *probes.entry(format!("{}:{}", p.simulator, f)).or_insert(0) += *v;
            } else if let Some(f) = k.strip_prefix("op.") {
                *ops.entry(f.to_string()).or_insert(0) += *v;
            } else {
                other.insert(k.clone(), *v);
            }
        }
        let hours = (p.batch.wall_s / 3600.0).max(1e-9);
        per_sim.insert(
            p.simulator.clone(),
            json!({
                "runs": p.batch.runs,
                "runs_per_hour": (p.batch.runs as f64 / hours).round(),
                "seeds_per_hour": (p.batch.runs as f64 / hours).round(),
                "distinct_nontrivial_plans": p.batch.nontrivial_digests.len(),
                "distinct_states_reached": p.batch.state_digests.len(),
                "simulated_time_ticks": p.batch.ticks,
                "steps_executed": p.batch.steps,
                "violating_runs": p.batch.violating_runs,
                "unjudged_runs_by_reason": p.batch.unjudged,
                "batch_trace_digest": format!("{:016x}", p.batch.trace_digest),
                "wall_s": p.batch.wall_s,
                "counters": other,
                "extra": p.extra,
            }),
        );
        for c in &p.components_real {
            if !real.contains(c) {
                real.push(c.clone());
            }
        }
        for c in &p.components_stub {
            if !stub.contains(c) {
                stub.push(c.clone());
            }
        }
    }
    if samples.is_empty() {
        samples.push(json!("no sample recorded"));
    }
    let zero_faults: Vec<&String> = faults.iter().filter(|(_, v)| **v == 0).map(|(k, _)| k).collect();
    let doc = json!({
        "property_id": e.property,
        "tier": e.tier,
        "seed": e.seed,
        "level": "exploration",
        "coverage": {
            "evaluations": evaluations,
            "distinct_nontrivial": distinct,
            "rule": rules.join(" || "),
            "samples": samples,
            "exhaustive": false,
            "simulators": per_sim,
            "faults_fired_by_kind": faults,
            "fault_kinds_never_fired": zero_faults,
            "reach_probes": probes,
            "operations_executed": ops,
            "components_real": real,
            "components_stub": stub,
            "truncated_by_wall_cap": truncated,
            "determinism_selfcheck": e.determinism,
            "known_findings_reported": e.known_findings,
        },
        "assumptions": e.assumptions,
        "wall_s": e.wall_s,
        "violations": e.violations,
    });
    let dir = verif_dir().join("evidence");
    let _ = fs::create_dir_all(&dir);
    let path = dir.join(format!("{}.json", e.property));
    if let Err(err) = fs::write(&path, serde_json::to_string_pretty(&doc).expect("evidence serialises")) {
        eprintln!("harness error: cannot write {}: {err}", path.display());
        std::process::exit(2);
    }
}
