//! Stored inputs and their corruption: base formula texts / ordering files, seeded
//! storage faults (bit flip, byte drop/dup/insert, truncate, splice, bad UTF-8, extreme
//! numerals ...), and the conservative nesting bound used to decide whether a byte
//! string is inside C12's stated domain.

use serde::{Deserialize, Serialize};

use crate::model::fast::{self, Printer};
use crate::prng::Prng;

pub const MAX_INPUT: usize = 64 * 1024;
pub const NESTING_BOUND: usize = 200;

/// Texts shipped with the repository (examples and test data), embedded at build time from
/// /repo's working tree so that a plan generator never reads the file system.
pub fn corpus() -> Vec<(&'static str, &'static [u8])> {
    vec![
        ("tests/data/axioms_is_true.txt", include_bytes!(concat!(env!("RSBDD_REPO_DIR"), "/tests/data/axioms_is_true.txt")).as_slice()),
        ("tests/data/test_fixpoint.txt", include_bytes!(concat!(env!("RSBDD_REPO_DIR"), "/tests/data/test_fixpoint.txt")).as_slice()),
        ("tests/data/set_abc.txt", include_bytes!(concat!(env!("RSBDD_REPO_DIR"), "/tests/data/set_abc.txt")).as_slice()),
        ("tests/data/mu_empty.txt", include_bytes!(concat!(env!("RSBDD_REPO_DIR"), "/tests/data/mu_empty.txt")).as_slice()),
        ("tests/data/nu_empty.txt", include_bytes!(concat!(env!("RSBDD_REPO_DIR"), "/tests/data/nu_empty.txt")).as_slice()),
        ("examples/fixedpoint.txt", include_bytes!(concat!(env!("RSBDD_REPO_DIR"), "/examples/fixedpoint.txt")).as_slice()),
        ("examples/fp.txt", include_bytes!(concat!(env!("RSBDD_REPO_DIR"), "/examples/fp.txt")).as_slice()),
        ("examples/state_machine.txt", include_bytes!(concat!(env!("RSBDD_REPO_DIR"), "/examples/state_machine.txt")).as_slice()),
        ("examples/cliques.txt", include_bytes!(concat!(env!("RSBDD_REPO_DIR"), "/examples/cliques.txt")).as_slice()),
        ("examples/4_queens.txt", include_bytes!(concat!(env!("RSBDD_REPO_DIR"), "/examples/4_queens.txt")).as_slice()),
    ]
}

#[derive(Clone, Debug, PartialEq, Eq, Serialize, Deserialize)]
pub enum StorageFault {
    BitFlip(usize, u8),
    ByteDrop(usize),
    ByteDup(usize),
    ByteInsert(usize, Vec<u8>),
    Truncate(usize),
    /// replace the tail from this position by the given bytes (splice of two inputs)
    Splice(usize, Vec<u8>),
    BadUtf8(usize, Vec<u8>),
}

impl StorageFault {
    pub fn kind(&self) -> &'static str {
        match self {
            StorageFault::BitFlip(..) => "bitflip",
            StorageFault::ByteDrop(_) => "byte-drop",
            StorageFault::ByteDup(_) => "byte-dup",
            StorageFault::ByteInsert(..) => "byte-insert",
            StorageFault::Truncate(_) => "truncate",
            StorageFault::Splice(..) => "splice",
            StorageFault::BadUtf8(..) => "bad-utf8",
        }
    }

    /// Apply to stored bytes; returns true when the bytes actually changed (the fault "fired").
    pub fn apply(&self, data: &mut Vec<u8>) -> bool {
        let before = data.clone();
        match self {
            StorageFault::BitFlip(pos, bit) => {
                if !data.is_empty() {
                    let p = pos % data.len();
                    data[p] ^= 1 << (bit % 8);
                }
            }
            StorageFault::ByteDrop(pos) => {
                if !data.is_empty() {
                    let p = pos % data.len();
                    data.remove(p);
                }
            }
            StorageFault::ByteDup(pos) => {
                if !data.is_empty() {
                    let p = pos % data.len();
                    let b = data[p];
                    data.insert(p, b);
                }
            }
            StorageFault::ByteInsert(pos, bytes) | StorageFault::BadUtf8(pos, bytes) => {
                let p = pos % (data.len() + 1);
                for (i, b) in bytes.iter().enumerate() {
                    data.insert(p + i, *b);
                }
            }
            StorageFault::Truncate(pos) => {
                let p = pos % (data.len() + 1);
                data.truncate(p);
            }
            StorageFault::Splice(pos, tail) => {
                let p = pos % (data.len() + 1);
                data.truncate(p);
                data.extend_from_slice(tail);
            }
        }
        data.truncate(MAX_INPUT);
        *data != before
    }
}

const TOKEN_ALPHABET: &[&str] = &[
    "(", ")", "[", "]", "\"", "#", "<", "=", ">", "<=", "=>", "<=>", ">=", "&", "|", "^", "-", "!", "*", "+", ",",
    "{", "}", "{x}", "0", "1", "7", "9", "00", "٣", "९", "１", "é", "变", "\0", " ", "\n", "'", "_", "a", "x", "true",
    "false", "exists", "forall", "lfp", "gfp", "if", "then", "else", "not", "and", "or", "nu", "mu", "in", "eq",
    "18446744073709551615", "18446744073709551616", "9223372036854775807", "9223372036854775808",
    "99999999999999999999999", "000000000000000000000001",
];

const BAD_UTF8: &[&[u8]] = &[
    &[0xFF],
    &[0xC3],
    &[0xE2, 0x82],
    &[0xF0, 0x9F, 0x92],
    &[0x80],
    &[0xC0, 0xAF],
    &[0xED, 0xA0, 0x80],
    &[0xF8, 0x88, 0x80, 0x80, 0x80],
];

pub fn gen_storage_fault(rng: &mut Prng, other: &[u8]) -> StorageFault {
    let pos = rng.below(1 << 20);
    match rng.below(8) {
        0 => StorageFault::BitFlip(pos, rng.below(8) as u8),
        1 => StorageFault::ByteDrop(pos),
        2 => StorageFault::ByteDup(pos),
        3 | 4 => StorageFault::ByteInsert(pos, rng.pick(TOKEN_ALPHABET).as_bytes().to_vec()),
        5 => StorageFault::Truncate(pos),
        6 => {
            let start = if other.is_empty() { 0 } else { rng.below(other.len()) };
            StorageFault::Splice(pos, other[start..].iter().copied().take(4096).collect())
        }
        _ => StorageFault::BadUtf8(pos, rng.pick(BAD_UTF8).to_vec()),
    }
}

fn token_soup(rng: &mut Prng) -> Vec<u8> {
    let n = rng.range(0, 40);
    let mut s = String::new();
    for _ in 0..n {
        s.push_str(*rng.pick(TOKEN_ALPHABET));
        if rng.chance(2, 3) {
            s.push(' ');
        }
    }
    s.into_bytes()
}

fn handcrafted(rng: &mut Prng) -> Vec<u8> {
    let big = *rng.pick(&[
        "9223372036854775807",
        "9223372036854775808",
        "18446744073709551615",
        "18446744073709551616",
        "99999999999999999999999",
        "0000000000000000000000000",
        "٣",
        "１２",
        "4294967296",
    ]);
    let op = *rng.pick(&["=", "<=", ">=", "<", ">"]);
    let list = *rng.pick(&["[a]", "[a,b]", "[]", "[a, b, c,]", "[a & b, -a]", "[true, false, a]"]);
    let forms: Vec<String> = vec![
        format!("{list} {op} {big}"),
        format!("{list} {op} {list}"),
        format!("exists a # {list} {op} {big}"),
        format!("-{list} {op} {big} | b"),
        format!("lfp X # X | {list} {op} {big}"),
        "(((((((((((".to_string(),
        ")))))".to_string(),
        "\"unterminated comment".to_string(),
        "a & \"c\" b".to_string(),
        "[[[[a]]]] = 1".to_string(),
        "exists # a".to_string(),
        "exists a, b, # a".to_string(),
        "if a then b".to_string(),
        "if if a then b else c then d else e".to_string(),
        "{undefined} & a".to_string(),
        "{r} | exists r # {r}".to_string(),
        "lfp # a".to_string(),
        "gfp true # a".to_string(),
        "- - - - a".to_string(),
        "-".to_string(),
        "a b".to_string(),
        "a &".to_string(),
        "& a".to_string(),
        "[a] = ".to_string(),
        "[a] 1".to_string(),
        "[a,,b] = 1".to_string(),
        "[a] = 1 2".to_string(),
        "forall x # exists x # lfp x # x".to_string(),
        "a <=> b <= c => d".to_string(),
        "a<=>b<=c=>d".to_string(),
        "a < = > b".to_string(),
        String::new(),
        " ".to_string(),
        "\n\n".to_string(),
        "\u{feff}a & b".to_string(),
        "a\u{0}b".to_string(),
    ];
    rng.pick(&forms).clone().into_bytes()
}

#[derive(Clone, Debug, PartialEq, Eq, Serialize, Deserialize)]
pub struct StoredInput {
    /// what the base was (for the evidence samples)
    pub base_kind: String,
    pub base: Vec<u8>,
    pub faults: Vec<StorageFault>,
}

impl StoredInput {
    /// Bytes after all storage faults; second value = kinds of the faults that changed the bytes.
    pub fn bytes(&self) -> (Vec<u8>, Vec<&'static str>) {
        let mut d = self.base.clone();
        d.truncate(MAX_INPUT);
        let mut fired = Vec::new();
        for f in &self.faults {
            if f.apply(&mut d) {
                fired.push(f.kind());
            }
        }
        (d, fired)
    }
}

/// A stored formula text: valid generated formula / repository text / token soup / random bytes /
/// handcrafted edge text, then 0-4 storage faults.
pub fn gen_stored_formula(rng: &mut Prng) -> StoredInput {
    let corp = corpus();
    let (base_kind, base): (String, Vec<u8>) = match rng.weighted(&[10, 3, 3, 1, 4]) {
        0 => {
            let cfg = fast::gen_cfg(rng, 6, 6);
            let f = fast::gen_formula(rng, &cfg);
            let noise = rng.below(3) as u8;
            let mut p2 = Prng::new(rng.next_u64());
            ("generated".into(), Printer::noisy(&mut p2, noise).print(&f).into_bytes())
        }
        1 => {
            let (name, data) = *rng.pick(&corp);
            (format!("repo:{name}"), data.to_vec())
        }
        2 => ("token-soup".into(), token_soup(rng)),
        3 => {
            let n = rng.range(0, 200);
            ("random-bytes".into(), rng.bytes(n))
        }
        _ => ("handcrafted".into(), handcrafted(rng)),
    };
    let nf = match base_kind.as_str() {
        "token-soup" | "random-bytes" => rng.below(2),
        _ => *rng.pick(&[0usize, 0, 1, 1, 2, 3, 4]),
    };
    let other = rng.pick(&corp).1;
    let faults = (0..nf).map(|_| gen_storage_fault(rng, other)).collect();
    StoredInput {
        base_kind,
        base,
        faults,
    }
}

/// A stored ordering file for the given formula names.
pub fn gen_stored_ordering(rng: &mut Prng, names: &[String]) -> StoredInput {
    let mut toks: Vec<String> = Vec::new();
    let mut pool: Vec<String> = names.to_vec();
    rng.shuffle(&mut pool);
    let keep = rng.range(0, pool.len());
    pool.truncate(keep);
    for n in pool {
        if rng.chance(1, 4) {
            toks.push(rng.pick(&["zz_unused", "q9", "other'", "ω"]).to_string());
        }
        toks.push(n.clone());
        if rng.chance(1, 8) {
            toks.push(n);
        }
        if rng.chance(1, 8) {
            toks.push(rng.pick(&[",", ";", "12", "and", "\"c\"", "(", "=>", "#", "true"]).to_string());
        }
    }
    if rng.chance(1, 4) {
        toks.push("tail_unused".into());
    }
    let sep = *rng.pick(&["\n", " ", ", ", "\r\n", "\t"]);
    let base = toks.join(sep).into_bytes();
    let nf = *rng.pick(&[0usize, 0, 0, 1, 2]);
    let other = rng.pick(&corpus()).1;
    let faults = (0..nf).map(|_| gen_storage_fault(rng, other)).collect();
    StoredInput {
        base_kind: "ordering".into(),
        base,
        faults,
    }
}

/// Conservative upper bound of the parser's recursion depth for a byte string (the simulator's
/// own light lexer; comments are skipped; every operator character / keyword that can open a
/// recursion level counts; a closing bracket or a list comma unwinds to its opening bracket).
pub fn nesting_bound(data: &[u8]) -> usize {
    let text: Vec<char> = String::from_utf8_lossy(data).chars().collect();
    let mut stack: Vec<usize> = vec![0];
    let mut sum = 0usize;
    let mut max_depth = 0usize;
    let opener_kw = [
        "not", "and", "or", "xor", "nor", "nand", "implies", "in", "iff", "eq", "exists", "any", "forall", "all",
        "if", "then", "else", "gfp", "nu", "lfp", "mu",
    ];
    // position of the next quote at or after i (computed lazily, monotone)
    let mut next_quote: Option<usize> = None;
    let mut i = 0usize;
    let word = |c: char| c.is_alphanumeric() || c == '_' || c == '\'';
    while i < text.len() {
        let c = text[i];
        i += 1;
        match c {
            '"' => {
                // comment up to the next quote (an unterminated quote is just a stray character)
                if next_quote.map_or(true, |q| q < i) {
                    next_quote = (i..text.len()).find(|k| text[*k] == '"');
                    if next_quote.is_none() {
                        // no further quote anywhere: remember that
                        next_quote = Some(usize::MAX);
                    }
                }
                if let Some(q) = next_quote {
                    if q != usize::MAX {
                        i = q + 1;
                    }
                }
            }
            '(' | '[' => stack.push(0),
            ')' | ']' => {
                if stack.len() > 1 {
                    sum -= stack.pop().unwrap_or(0);
                }
            }
            ',' => {
                if let Some(top) = stack.last_mut() {
                    sum -= *top;
                    *top = 0;
                }
            }
            '&' | '|' | '^' | '*' | '+' | '-' | '!' | '=' | '<' | '>' | '#' => {
                if let Some(top) = stack.last_mut() {
                    *top += 1;
                    sum += 1;
                }
            }
            c if word(c) => {
                let start = i - 1;
                while i < text.len() && word(text[i]) {
                    i += 1;
                }
                if i - start <= 7 {
                    let w: String = text[start..i].iter().collect();
                    if opener_kw.contains(&w.as_str()) {
                        if let Some(top) = stack.last_mut() {
                            *top += 1;
                            sum += 1;
                        }
                    }
                }
            }
            _ => {}
        }
        max_depth = max_depth.max(sum + stack.len());
    }
    max_depth
}

#[cfg(test)]
mod tests {
    use super::*;
    #[test]
    fn nesting() {
        assert!(nesting_bound(b"a & b & c") <= 4);
        assert!(nesting_bound(b"((((a))))") >= 4);
        let long: String = (0..300).map(|i| format!("v{i} & ")).collect::<String>() + "z";
        assert!(nesting_bound(long.as_bytes()) > NESTING_BOUND);
        let list: String = format!("[{}] = 1", (0..300).map(|i| format!("v{i}")).collect::<Vec<_>>().join(", "));
        assert!(nesting_bound(list.as_bytes()) <= 10);
    }
}
