//! Fault-injecting reader and writer for the seams rsbdd already has
//! (`&mut dyn BufRead` for input, `W: Write` for the DOT exporters).
//! Every fault is scripted by a plan; nothing here draws randomness.

use std::io::{self, BufRead, Read, Write};

use serde::{Deserialize, Serialize};

#[derive(Clone, Copy, Debug, PartialEq, Eq, Serialize, Deserialize)]
pub enum IoEvent {
    /// deliver / accept at most this many bytes (>= 1)
    Data(usize),
    /// ErrorKind::Interrupted — must be transparent to the caller
    Eintr,
    /// a hard error (ErrorKind::Other, message "injected I/O error #<n>")
    Fail,
    /// writer only: accept zero bytes (a full device); write_all must turn this into an error
    Zero,
}

#[derive(Clone, Debug, PartialEq, Eq, Serialize, Deserialize, Default)]
pub struct IoPlan {
    pub events: Vec<IoEvent>,
    /// chunk size once the events are used up (0 = everything that is left)
    pub tail_chunk: usize,
}

impl IoPlan {
    pub fn clean() -> Self {
        Self {
            events: Vec::new(),
            tail_chunk: 0,
        }
    }

    pub fn has_hard_error(&self) -> bool {
        self.events.iter().any(|e| matches!(e, IoEvent::Fail | IoEvent::Zero))
    }
}

#[derive(Clone, Debug, Default)]
pub struct IoFired {
    pub chunks: u64,
    pub eintr: u64,
    pub fail: u64,
    pub zero: u64,
    /// a chunk boundary fell inside a multi-byte UTF-8 character
    pub split_utf8: u64,
    /// a chunk boundary fell between two operator characters (inside `<=>`, `=>`, `>=` ..)
    pub split_operator: u64,
    /// a hard error happened before any byte was delivered / after some bytes
    pub fail_at_start: u64,
    pub fail_later: u64,
}

pub const INJECTED_MSG: &str = "injected I/O error";

pub struct FaultyReader<'a> {
    data: &'a [u8],
    pos: usize,
    plan: &'a IoPlan,
    next_event: usize,
    pub fired: IoFired,
    /// buffer backing the BufRead implementation
    buf: Vec<u8>,
    buf_pos: usize,
}

impl<'a> FaultyReader<'a> {
    pub fn new(data: &'a [u8], plan: &'a IoPlan) -> Self {
        Self {
            data,
            pos: 0,
            plan,
            next_event: 0,
            fired: IoFired::default(),
            buf: Vec::new(),
            buf_pos: 0,
        }
    }

    /// Decide the outcome of the next underlying read of at most `want` bytes.
    fn next_chunk(&mut self, want: usize) -> io::Result<usize> {
        let left = self.data.len() - self.pos;
        let ev = if self.next_event < self.plan.events.len() {
            let e = self.plan.events[self.next_event];
            self.next_event += 1;
            e
        } else if self.plan.tail_chunk == 0 {
            IoEvent::Data(usize::MAX)
        } else {
            IoEvent::Data(self.plan.tail_chunk)
        };
        match ev {
            IoEvent::Eintr => {
                self.fired.eintr += 1;
                Err(io::Error::new(io::ErrorKind::Interrupted, "injected EINTR"))
            }
            IoEvent::Fail | IoEvent::Zero => {
                self.fired.fail += 1;
                if self.pos == 0 {
                    self.fired.fail_at_start += 1;
                } else {
                    self.fired.fail_later += 1;
                }
                Err(io::Error::other(format!("{INJECTED_MSG} #{}", self.next_event)))
            }
            IoEvent::Data(n) => {
                let k = n.max(1).min(want).min(left);
                if k > 0 && k < left {
                    self.fired.chunks += 1;
                    let b = self.data[self.pos + k];
                    if b & 0xC0 == 0x80 {
                        self.fired.split_utf8 += 1;
                    }
                    let a = self.data[self.pos + k - 1];
                    let opch = |c: u8| matches!(c, b'<' | b'=' | b'>');
                    if opch(a) && opch(b) {
                        self.fired.split_operator += 1;
                    }
                }
                Ok(k)
            }
        }
    }
}

impl Read for FaultyReader<'_> {
    fn read(&mut self, out: &mut [u8]) -> io::Result<usize> {
        // serve buffered bytes first (only relevant when fill_buf was used)
        if self.buf_pos < self.buf.len() {
            let k = (self.buf.len() - self.buf_pos).min(out.len());
            out[..k].copy_from_slice(&self.buf[self.buf_pos..self.buf_pos + k]);
            self.buf_pos += k;
            return Ok(k);
        }
        if out.is_empty() {
            return Ok(0);
        }
        let k = self.next_chunk(out.len())?;
        out[..k].copy_from_slice(&self.data[self.pos..self.pos + k]);
        self.pos += k;
        Ok(k)
    }
}

impl BufRead for FaultyReader<'_> {
    fn fill_buf(&mut self) -> io::Result<&[u8]> {
        if self.buf_pos >= self.buf.len() {
            let k = self.next_chunk(usize::MAX)?;
            self.buf = self.data[self.pos..self.pos + k].to_vec();
            self.buf_pos = 0;
            self.pos += k;
        }
        Ok(&self.buf[self.buf_pos..])
    }

    fn consume(&mut self, amt: usize) {
        self.buf_pos = (self.buf_pos + amt).min(self.buf.len());
    }
}

pub struct FaultyWriter<'a> {
    pub accepted: Vec<u8>,
    plan: &'a IoPlan,
    next_event: usize,
    pub fired: IoFired,
    pub calls: u64,
}

impl<'a> FaultyWriter<'a> {
    pub fn new(plan: &'a IoPlan) -> Self {
        Self {
            accepted: Vec::new(),
            plan,
            next_event: 0,
            fired: IoFired::default(),
            calls: 0,
        }
    }
}

impl Write for FaultyWriter<'_> {
    fn write(&mut self, data: &[u8]) -> io::Result<usize> {
        self.calls += 1;
        if data.is_empty() {
            return Ok(0);
        }
        let ev = if self.next_event < self.plan.events.len() {
            let e = self.plan.events[self.next_event];
            self.next_event += 1;
            e
        } else if self.plan.tail_chunk == 0 {
            IoEvent::Data(usize::MAX)
        } else {
            IoEvent::Data(self.plan.tail_chunk)
        };
        match ev {
            IoEvent::Eintr => {
                self.fired.eintr += 1;
                Err(io::Error::new(io::ErrorKind::Interrupted, "injected EINTR"))
            }
            IoEvent::Fail => {
                self.fired.fail += 1;
                if self.accepted.is_empty() {
                    self.fired.fail_at_start += 1;
                } else {
                    self.fired.fail_later += 1;
                }
                Err(io::Error::other(format!("{INJECTED_MSG} #{}", self.next_event)))
            }
            IoEvent::Zero => {
                self.fired.zero += 1;
                Ok(0)
            }
            IoEvent::Data(n) => {
                let k = n.max(1).min(data.len());
                if k < data.len() {
                    self.fired.chunks += 1;
                }
                self.accepted.extend_from_slice(&data[..k]);
                Ok(k)
            }
        }
    }

    fn flush(&mut self) -> io::Result<()> {
        Ok(())
    }
}

/// Draw an I/O plan (used by plan generators only).
pub fn gen_io_plan(rng: &mut crate::prng::Prng, len_hint: usize, allow_hard: bool, writer: bool) -> IoPlan {
    // chunk size law in {1, 2..8, 9..64, whole}
    let law = rng.below(4);
    let chunk = |rng: &mut crate::prng::Prng| -> usize {
        match law {
            0 => 1,
            1 => rng.range(2, 8),
            2 => rng.range(9, 64),
            _ => usize::MAX / 2,
        }
    };
    let eintr_rate = *rng.pick(&[0usize, 5, 30]);
    let n_events = match law {
        0 => len_hint.min(64),
        1 => (len_hint / 4).min(48) + 1,
        2 => (len_hint / 32).min(16) + 1,
        _ => rng.below(3),
    };
    let mut events = Vec::new();
    for _ in 0..n_events {
        if rng.chance(eintr_rate, 100) {
            events.push(IoEvent::Eintr);
        }
        events.push(IoEvent::Data(chunk(rng)));
    }
    if allow_hard && rng.chance(1, 4) {
        // at most one hard error, position biased to 0, 1, last
        let pos = match rng.below(4) {
            0 => 0,
            1 => 1.min(events.len()),
            2 => events.len(),
            _ => rng.below(events.len() + 1),
        };
        let ev = if writer && rng.chance(1, 3) { IoEvent::Zero } else { IoEvent::Fail };
        events.insert(pos, ev);
    }
    IoPlan {
        events,
        tail_chunk: match law {
            0 => 1,
            1 => 7,
            2 => 61,
            _ => 0,
        },
    }
}
