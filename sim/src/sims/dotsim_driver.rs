//! Binds dotsim to the `Simulator` interface (C14).

use serde_json::Value;

use super::dotsim::{self, DotPlan};
use crate::core::{prng_for, RunOutcome, Violation};
use crate::Simulator;

pub struct DotSimDriver;

impl DotSimDriver {
    fn plan(&self, seed: u64, run: u64) -> DotPlan {
        let mut rng = prng_for(seed, dotsim::SIM_ID * 1000 + 14, run);
        dotsim::gen_plan(&mut rng)
    }
}

impl Simulator for DotSimDriver {
    fn name(&self) -> &'static str {
        "dotsim"
    }

    fn rule(&self) -> String {
        "one diagram per run (seeded function over 1-6 variables, usize or named symbols incl. names needing escaping) built in an \
         environment with seeded prior history and alloc-shift churn, exported with filters Any/True/False, through a seeded write-fault plan, \
         and again from a second environment with a different history; optionally one generated formula's syntax tree; \
         distinct = distinct plan digest; non-trivial = at least one writer / allocator fault actually fired and the diagram is not constant"
            .to_string()
    }

    fn components_real(&self) -> Vec<String> {
        vec!["rsbdd library from /repo's working tree: BDDGraph, SymbolicParseTree, dot crate, BDDEnv, parser".into()]
    }

    fn components_stub(&self) -> Vec<String> {
        vec![
            "output writer (FaultyWriter behind the existing W: Write seam)".into(),
            "allocator churn between builds (junk allocations of seeded sizes)".into(),
        ]
    }

    fn runs(&self, thorough: bool) -> u64 {
        if thorough {
            5_000_000
        } else {
            200_000
        }
    }

    fn run_one(&self, seed: u64, run: u64) -> RunOutcome {
        dotsim::execute(&self.plan(seed, run))
    }

    fn plan_json(&self, seed: u64, run: u64) -> Value {
        serde_json::to_value(self.plan(seed, run)).expect("plan serialises")
    }

    fn minimise(&self, seed: u64, run: u64, v: &Violation) -> (Value, Violation, usize) {
        let plan = self.plan(seed, run);
        let (p, mv) = dotsim::minimise(&plan, v);
        (serde_json::to_value(p).expect("plan serialises"), mv, 1)
    }

    fn replay(&self, plan: &Value) -> RunOutcome {
        match serde_json::from_value::<DotPlan>(plan.clone()) {
            Ok(p) => dotsim::execute(&p),
            Err(e) => {
                eprintln!("harness error: replay plan does not parse: {e}");
                std::process::exit(2);
            }
        }
    }
}
