//! Binds envsim to the `Simulator` interface for C13 / C19 / C02.

use serde_json::Value;

use super::envsim::{self, EnvPlan};
use crate::core::{prng_for, RunOutcome, Violation};
use crate::Simulator;

pub struct EnvSimDriver {
    property: String,
    thorough: bool,
}

impl EnvSimDriver {
    pub fn new(property: &str, thorough: bool) -> Self {
        Self {
            property: property.to_string(),
            thorough,
        }
    }

    fn sim_id(&self) -> u64 {
        // one stream per property so that checks do not share plans by accident
        envsim::SIM_ID * 1000 + self.property[1..].parse::<u64>().unwrap_or(0)
    }

    fn plan(&self, seed: u64, run: u64) -> EnvPlan {
        let mut rng = prng_for(seed, self.sim_id(), run);
        envsim::gen_plan(&mut rng, &self.property, &envsim::tier(self.thorough))
    }
}

impl Simulator for EnvSimDriver {
    fn name(&self) -> &'static str {
        "envsim"
    }

    fn rule(&self) -> String {
        "one seeded plan per run: 1-4 clients (raw API, BDDSet, formula) interleaved on one shared Rc<BDDEnv>, \
         5-60 steps incl. fault steps; distinct = distinct plan digest; non-trivial = at least one client switch, \
         at least one fault step that actually fired, and at least one non-constant result"
            .to_string()
    }

    fn components_real(&self) -> Vec<String> {
        vec![
            "rsbdd library from /repo's working tree (BDDEnv, BDD, BDDSet, ParsedFormula, parser)".into(),
        ]
    }

    fn components_stub(&self) -> Vec<String> {
        vec![
            "client scheduler (plan order)".into(),
            "fp transformer closures (scripted, incl. re-entrant and cancelling ones)".into(),
            "tick budget (guarded hook)".into(),
        ]
    }

    fn runs(&self, thorough: bool) -> u64 {
        if thorough {
            12_000_000
        } else {
            1_000_000
        }
    }

    fn run_one(&self, seed: u64, run: u64) -> RunOutcome {
        envsim::execute(&self.plan(seed, run))
    }

    fn plan_json(&self, seed: u64, run: u64) -> Value {
        serde_json::to_value(self.plan(seed, run)).expect("plan serialises")
    }

    fn minimise(&self, seed: u64, run: u64, v: &Violation) -> (Value, Violation, usize) {
        let plan = self.plan(seed, run);
        let n = plan.steps.len();
        let (p, mv) = envsim::minimise(&plan, v);
        (serde_json::to_value(p).expect("plan serialises"), mv, n)
    }

    fn replay(&self, plan: &Value) -> RunOutcome {
        match serde_json::from_value::<EnvPlan>(plan.clone()) {
            Ok(p) => envsim::execute(&p),
            Err(e) => {
                eprintln!("harness error: replay plan does not parse: {e}");
                std::process::exit(2);
            }
        }
    }
}
