//! rgsim — the real `random_graph_gen` binary under a seeded RNG seam (guarded hook:
//! RSBDD_VERIF_RNG_SEED). One plan = one request (argv, input file, RNG seed); oracles G1-G7
//! of DESIGN.md 4.8 (C18).

use std::collections::BTreeSet;
use std::path::PathBuf;
use std::process::{Command, Stdio};

use serde::{Deserialize, Serialize};

use crate::core::{bump, RunOutcome, Stats, Violation};
use crate::prng::{digest_bytes, mix, Prng};

pub const SIM_ID: u64 = 4;

#[derive(Clone, Debug, PartialEq, Eq, Serialize, Deserialize)]
pub enum RgPlan {
    Gen {
        v: Option<usize>,
        e: Option<usize>,
        undirected: bool,
        complete: bool,
        dot: bool,
        to_file: bool,
        rng_seed: u64,
        /// `fs-stale-output`: the -o file already exists with this many lines of older content
        #[serde(default)]
        stale: usize,
    },
    Convert {
        edges: Vec<(String, String)>,
        undirected: bool,
        colors: Option<usize>,
        dot: bool,
        to_file: bool,
        #[serde(default)]
        stale: usize,
        /// `fs-in-place`: -o names the very file given to --convert
        #[serde(default)]
        in_place: bool,
    },
}

pub fn gen_plan(rng: &mut Prng) -> RgPlan {
    if rng.chance(2, 3) {
        let undirected = rng.coin();
        // mostly small graphs; sometimes two-digit vertex numbers
        let v = match rng.below(24) {
            0..=3 => rng.range(10, 14),
            4 => *rng.pick(&[16usize, 17, 31, 32, 33, 63, 64, 65, 100, 101]),
            _ => rng.range(0, 9),
        };
        let max = if undirected { v * v.saturating_sub(1) / 2 } else { v * v.saturating_sub(1) };
        // half feasible-interior, a quarter at the exact maximum, a quarter infeasible / degenerate
        let e = match rng.below(8) {
            0..=3 => {
                if max >= 2 {
                    rng.range(1, max - 1)
                } else {
                    rng.range(0, max)
                }
            }
            4 | 5 => max,
            6 => max + rng.range(1, 3),
            _ => {
                // inside the window where only the undirected bound is exceeded, or far out
                if undirected && v >= 2 {
                    rng.range(max + 1, v * (v - 1))
                } else {
                    max + rng.range(1, 40)
                }
            }
        };
        let complete = rng.chance(1, 6);
        let omit_e = complete && rng.coin();
        let omit_v = rng.chance(1, 40);
        RgPlan::Gen {
            v: if omit_v { None } else { Some(v) },
            e: if omit_e || (omit_v && rng.coin()) { None } else { Some(e) },
            undirected,
            complete,
            dot: rng.chance(1, 4),
            to_file: rng.chance(1, 3),
            rng_seed: rng.next_u64() >> 1,
            stale: if rng.chance(1, 3) { rng.range(1, 120) } else { 0 },
        }
    } else {
        let nv = rng.range(2, 5);
        let names: Vec<String> = if rng.coin() {
            (0..nv).map(|i| format!("v{i}")).collect()
        } else {
            // incl. names containing "_c" and pairs where one name is a prefix of the other
            let mut pool = vec!["a", "b", "c", "d", "e", "x1", "node_7", "Q", "a_copy", "n_core", "x_c1", "v_c", "b_c0", "v1", "v10", "n", "n2", "aB", "x10"];
            rng.shuffle(&mut pool);
            let mut names: Vec<String> = pool[..nv].iter().map(|s| s.to_string()).collect();
            if nv >= 3 && rng.chance(1, 8) {
                // `hash-collision`: two 16-character vertex names after which FxHasher's state is equal,
                // plus a third name that sorts after both
                if let Some((a, b)) = colliding_vertex_names() {
                    names[0] = a;
                    names[1] = b;
                    names[2] = "zz_sorts_last".to_string();
                }
            }
            if nv >= 4 && rng.chance(1, 10) {
                // names that need CSV quoting because they contain the separator; judged on the raw
                // output lines (the tool prints names verbatim)
                names[0] = "a,b".to_string();
                names[1] = "b,c".to_string();
                names[2] = "a".to_string();
                names[3] = "c".to_string();
            }
            names
        };
        let ne = rng.range(0, 8);
        let mut edges = Vec::new();
        for _ in 0..ne {
            let a = rng.below(nv);
            let mut b = rng.below(nv);
            // self loops only rarely (they are reproduced by --convert but excluded from G6)
            if a == b && !rng.chance(1, 8) {
                b = (b + 1) % nv;
            }
            edges.push((names[a].clone(), names[b].clone()));
            if rng.chance(1, 5) {
                // a reversed or exact duplicate
                if rng.coin() {
                    edges.push((names[b].clone(), names[a].clone()));
                } else {
                    edges.push((names[a].clone(), names[b].clone()));
                }
            }
        }
        if rng.chance(1, 12) {
            // `long-list`: hundreds of distinct edges over many vertices, then the reversed copies of
            // a part of them (every position of the list gets its reversed duplicate in some run)
            let n = match rng.below(4) {
                0 => rng.range(90, 110),
                1 => rng.range(250, 262),
                2 => rng.range(0, 40),
                _ => rng.range(0, 400),
            };
            let side = 2 + (n as f64).sqrt() as usize;
            let mut edges: Vec<(String, String)> = Vec::with_capacity(2 * n);
            let mut k = 0usize;
            while edges.len() < n {
                let (a, b) = (k / side, side + k % side);
                k += 1;
                edges.push(if rng.coin() { (format!("v{a}"), format!("v{b}")) } else { (format!("v{b}"), format!("v{a}")) });
            }
            let reversed: Vec<(String, String)> = match rng.below(3) {
                0 => edges.iter().map(|(a, b)| (b.clone(), a.clone())).collect(),
                1 => edges.iter().filter(|_| rng.chance(1, 3)).map(|(a, b)| (b.clone(), a.clone())).collect(),
                _ => edges.iter().rev().take(rng.range(0, 12)).map(|(a, b)| (b.clone(), a.clone())).collect(),
            };
            edges.extend(reversed);
            return RgPlan::Convert {
                edges,
                undirected: rng.chance(4, 5),
                colors: None,
                dot: rng.chance(1, 6),
                to_file: rng.chance(1, 3),
                stale: 0,
                in_place: false,
            };
        }
        RgPlan::Convert {
            edges,
            undirected: rng.coin(),
            colors: if rng.chance(3, 5) { Some(rng.range(0, 3)) } else { None },
            dot: rng.chance(1, 6),
            to_file: rng.chance(1, 3),
            stale: if rng.chance(1, 3) { rng.range(1, 120) } else { 0 },
            in_place: rng.chance(1, 8),
        }
    }
}

fn colliding_vertex_names() -> Option<(String, String)> {
    static PAIR: std::sync::OnceLock<Option<(String, String)>> = std::sync::OnceLock::new();
    PAIR.get_or_init(|| crate::fx::colliding_names_16("vertex_name_0001", 20_000_000)).clone()
}

pub fn bin_dir() -> PathBuf {
    std::env::var("RSBDD_DST_BIN_DIR")
        .map(PathBuf::from)
        .unwrap_or_else(|_| PathBuf::from("/verif/target/repo/release"))
}

pub struct Spawned {
    pub status: Option<i32>,
    pub signal: bool,
    pub stdout: Vec<u8>,
    pub stderr: Vec<u8>,
}

/// Wall-clock limit for one child process. The tick budget bounds the library's work inside a
/// child, but a broken tree can loop where nothing ticks; such a child is killed and its run is
/// unjudged (reported like an exhausted tick budget, exit status 97), never a verdict.
pub const CHILD_WALL_LIMIT_S: u64 = 60;
pub static CHILD_TIMEOUTS: std::sync::atomic::AtomicU64 = std::sync::atomic::AtomicU64::new(0);

type WatchMap = std::sync::Mutex<std::collections::HashMap<u32, (std::time::Instant, bool)>>;
static WATCHED: std::sync::OnceLock<WatchMap> = std::sync::OnceLock::new();

fn watched() -> &'static WatchMap {
    WATCHED.get_or_init(|| {
        std::thread::Builder::new()
            .name("child-watchdog".into())
            .spawn(|| loop {
                std::thread::sleep(std::time::Duration::from_secs(1));
                if let Some(m) = WATCHED.get() {
                    let mut g = m.lock().expect("watch map");
                    for (pid, (since, killed)) in g.iter_mut() {
                        if !*killed && since.elapsed().as_secs() >= CHILD_WALL_LIMIT_S {
                            let _ = Command::new("/bin/kill").arg("-9").arg(pid.to_string()).stdin(Stdio::null()).stdout(Stdio::null()).stderr(Stdio::null()).status();
                            *killed = true;
                        }
                    }
                }
            })
            .expect("cannot start the child watchdog");
        std::sync::Mutex::new(std::collections::HashMap::new())
    })
}

/// `wait_with_output` under the wall-clock limit.
pub fn wait_watched(child: std::process::Child) -> Spawned {
    use std::os::unix::process::ExitStatusExt;
    let pid = child.id();
    watched().lock().expect("watch map").insert(pid, (std::time::Instant::now(), false));
    let out = child.wait_with_output().expect("wait failed");
    let killed = watched().lock().expect("watch map").remove(&pid).map(|(_, k)| k).unwrap_or(false);
    if killed {
        CHILD_TIMEOUTS.fetch_add(1, std::sync::atomic::Ordering::Relaxed);
        return Spawned {
            status: Some(97),
            signal: false,
            stdout: out.stdout,
            stderr: format!("killed by the simulator after {CHILD_WALL_LIMIT_S} s of wall-clock time (not judged)").into_bytes(),
        };
    }
    Spawned {
        status: out.status.code(),
        signal: out.status.signal().is_some(),
        stdout: out.stdout,
        stderr: out.stderr,
    }
}

pub fn run_dir(tag: &str) -> PathBuf {
    let d = PathBuf::from(format!(
        "/dev/shm/rsbdd-dst-{}/{}-{:?}",
        std::process::id(),
        tag,
        std::thread::current().id()
    ));
    let _ = std::fs::remove_dir_all(&d);
    std::fs::create_dir_all(&d).expect("cannot create run directory on tmpfs");
    d
}

/// `cwd-removed`: a command that starts `bin` in a working directory that no longer exists (a
/// sub-directory of `parent` that the shell enters, removes and then replaces itself from).
/// Only for invocations whose path arguments are all absolute.
pub fn command_in_removed_cwd(bin: &std::path::Path, args: &[String], parent: &std::path::Path) -> Command {
    let gone = parent.join("removed-cwd");
    let _ = std::fs::create_dir_all(&gone);
    let mut cmd = Command::new("/bin/sh");
    cmd.arg("-c")
        .arg("cd \"$1\" && rmdir \"$1\" && shift && exec \"$@\"")
        .arg("sh")
        .arg(&gone)
        .arg(bin)
        .args(args);
    cmd
}

pub fn spawn(bin: &str, args: &[String], cwd: &PathBuf, stdin: Option<&[u8]>, envs: &[(&str, String)]) -> Spawned {
    spawn_env(bin, args, cwd, stdin, envs, false)
}

pub fn spawn_env(bin: &str, args: &[String], cwd: &PathBuf, stdin: Option<&[u8]>, envs: &[(&str, String)], cwd_removed: bool) -> Spawned {
    use std::io::Write;
    let mut cmd = if cwd_removed {
        command_in_removed_cwd(&bin_dir().join(bin), args, cwd)
    } else {
        let mut c = Command::new(bin_dir().join(bin));
        c.args(args);
        c
    };
    cmd.current_dir(cwd)
        .env_clear()
        .env("PATH", "/usr/bin:/bin")
        .stdout(Stdio::piped())
        .stderr(Stdio::piped())
        .stdin(if stdin.is_some() { Stdio::piped() } else { Stdio::null() });
    for (k, v) in envs {
        cmd.env(k, v);
    }
    let mut child = cmd.spawn().unwrap_or_else(|e| {
        eprintln!("harness error: cannot spawn {bin}: {e}");
        std::process::exit(2);
    });
    if let Some(data) = stdin {
        if let Some(mut si) = child.stdin.take() {
            let _ = si.write_all(data);
        }
    }
    wait_watched(child)
}

fn viol(oracle: &str, site: &str, detail: String) -> Violation {
    Violation {
        property: "C18".into(),
        oracle: oracle.into(),
        site: site.into(),
        step: 0,
        detail,
    }
}

/// The edge statements of a DOT text, by structure and not by layout: `[strict] graph|digraph
/// [name] {` .. `}`, one statement per line; comments, blank lines, `graph [..]` / `node [..]` /
/// `edge [..]` / `key=value` statements are skipped; an edge statement is `a -> b` or `a -- b`
/// (a trailing `;` is dropped). Returned as (left, operator, right), names verbatim.
fn dot_edge_statements(text: &str) -> Result<Vec<(String, String, String)>, String> {
    let lines: Vec<&str> = text.lines().map(str::trim).filter(|l| !l.is_empty() && !l.starts_with("//") && !l.starts_with('#')).collect();
    let first = lines.first().copied().unwrap_or("");
    let mut words = first.trim_end_matches('{').split_whitespace();
    let mut kw = words.next().unwrap_or("");
    if kw == "strict" {
        kw = words.next().unwrap_or("");
    }
    if !(kw == "graph" || kw == "digraph") || !first.ends_with('{') || words.count() > 1 || lines.last().copied() != Some("}") || lines.len() < 2 {
        return Err(format!("dot frame missing: first={:?} last={:?}", lines.first(), lines.last()));
    }
    let mut out = Vec::new();
    for l in &lines[1..lines.len() - 1] {
        let t = l.trim_end_matches(';').trim_end();
        let op = if t.contains(" -> ") {
            " -> "
        } else if t.contains(" -- ") {
            " -- "
        } else {
            // not an edge: default attributes and graph attributes are layout, anything else is not expected
            let head = t.split(|c: char| c == '[' || c.is_whitespace()).next().unwrap_or("");
            if matches!(head, "graph" | "node" | "edge") || (t.contains('=') && !t.contains('[')) {
                continue;
            }
            return Err(format!("not a dot edge line: {l:?}"));
        };
        let (a, b) = t.split_once(op).expect("operator is present");
        out.push((a.to_string(), op.trim().to_string(), b.to_string()));
    }
    Ok(out)
}

fn parse_edges(text: &str, dot: bool, undirected: bool) -> Result<Vec<(String, String)>, String> {
    let mut edges = Vec::new();
    if dot {
        let want = if undirected { "--" } else { "->" };
        for (a, op, b) in dot_edge_statements(text)? {
            if op != want {
                return Err(format!("a `{op}` edge in the dot output of a request {} -u", if undirected { "with" } else { "without" }));
            }
            edges.push((a, b));
        }
    } else {
        for l in text.lines() {
            match l.split_once(',') {
                Some((a, b)) if !b.contains(',') => edges.push((a.to_string(), b.to_string())),
                _ => return Err(format!("not an edge line: {l:?}")),
            }
        }
    }
    Ok(edges)
}

fn args_of(plan: &RgPlan, dir: &PathBuf, force_dot: Option<bool>) -> (Vec<String>, Option<PathBuf>) {
    let mut a: Vec<String> = Vec::new();
    let mut outfile = None;
    match plan {
        RgPlan::Gen {
            v,
            e,
            undirected,
            complete,
            dot,
            to_file,
            ..
        } => {
            if let Some(v) = v {
                a.push(v.to_string());
            }
            if let Some(e) = e {
                if v.is_some() {
                    a.push(e.to_string());
                }
            }
            if *undirected {
                a.push("-u".into());
            }
            if *complete {
                a.push("--complete".into());
            }
            if force_dot.unwrap_or(*dot) {
                a.push("--dot".into());
            }
            if *to_file {
                let p = dir.join("out.txt");
                a.push("-o".into());
                a.push(p.to_string_lossy().to_string());
                outfile = Some(p);
            }
        }
        RgPlan::Convert {
            edges,
            undirected,
            colors,
            dot,
            to_file,
            in_place,
            ..
        } => {
            let input = dir.join("in.csv");
            let mut s = String::new();
            for (i, (x, y)) in edges.iter().enumerate() {
                // every third row of some inputs uses CSV quoting; the logical fields are the same
                if (edges.len() % 2 == 1 && i % 3 == 0) || x.contains(',') || y.contains(',') {
                    s.push_str(&format!("\"{x}\",\"{y}\"\n"));
                } else {
                    s.push_str(&format!("{x},{y}\n"));
                }
            }
            std::fs::write(&input, s).expect("tmpfs write");
            a.push("--convert".into());
            a.push(input.to_string_lossy().to_string());
            if *undirected {
                a.push("-u".into());
            }
            if let Some(k) = colors {
                a.push("--colors".into());
                a.push(k.to_string());
            }
            if force_dot.unwrap_or(*dot) {
                a.push("--dot".into());
            }
            if *in_place {
                a.push("-o".into());
                a.push(input.to_string_lossy().to_string());
                outfile = Some(input.clone());
            } else if *to_file {
                let p = dir.join("out.txt");
                a.push("-o".into());
                a.push(p.to_string_lossy().to_string());
                outfile = Some(p);
            }
        }
    }
    let stale = match plan {
        RgPlan::Convert { in_place: true, .. } => 0,
        _ => match plan {
            RgPlan::Gen { stale, .. } | RgPlan::Convert { stale, .. } => *stale,
        },
    };
    if let (Some(p), true) = (&outfile, stale > 0) {
        let old: String = (0..stale).map(|i| format!("v9{i},v8{i}\n")).collect();
        std::fs::write(p, old).expect("tmpfs write");
    }
    // `argument-order`: for a third of the plans the same arguments are given in another order
    // (an option keeps its value, VERTICES stays before EDGES); a pure function of the plan
    let d = digest_bytes(&serde_json::to_vec(plan).expect("plan serialises"));
    if d % 3 == 0 {
        let takes_value = ["-o", "--convert", "--colors"];
        let mut units: Vec<Vec<String>> = Vec::new();
        let mut i = 0;
        while i < a.len() {
            if takes_value.contains(&a[i].as_str()) && i + 1 < a.len() {
                units.push(vec![a[i].clone(), a[i + 1].clone()]);
                i += 2;
            } else {
                units.push(vec![a[i].clone()]);
                i += 1;
            }
        }
        let is_pos = |u: &Vec<String>| u.len() == 1 && u[0].chars().all(|c| c.is_ascii_digit());
        let positionals: Vec<Vec<String>> = units.iter().filter(|u| is_pos(u)).cloned().collect();
        let mut rng = Prng::new(d);
        rng.shuffle(&mut units);
        // put the positionals back in their original relative order
        let mut k = 0;
        for u in units.iter_mut() {
            if is_pos(u) {
                *u = positionals[k].clone();
                k += 1;
            }
        }
        a = units.into_iter().flatten().collect();
    }
    (a, outfile)
}

struct Outcome {
    sp: Spawned,
    output: Vec<u8>,
    file_created: bool,
}

/// Process-environment variant of a plan for its second execution (a pure function of the plan):
/// 0 = `cwd-removed`, 1 = `input-pipe` (--convert reads /dev/stdin, a pipe), 2 = `output-full` (the
/// output goes to /dev/full, where every write fails), anything else = none.
fn env_variant(plan: &RgPlan) -> u8 {
    let d = digest_bytes(&serde_json::to_vec(plan).expect("plan serialises")) % 6;
    match (d, plan) {
        (0, _) => 0,
        (1, RgPlan::Convert { in_place: false, .. }) => 1,
        (2, RgPlan::Convert { in_place: false, .. }) | (2, RgPlan::Gen { .. }) => 2,
        _ => 255,
    }
}

fn run_once(plan: &RgPlan, force_dot: Option<bool>) -> Outcome {
    run_once_env(plan, force_dot, 255)
}

fn run_once_env(plan: &RgPlan, force_dot: Option<bool>, env: u8) -> Outcome {
    let dir = run_dir("rg");
    let (mut args, outfile) = args_of(plan, &dir, force_dot);
    let seed = match plan {
        RgPlan::Gen { rng_seed, .. } => *rng_seed,
        RgPlan::Convert { .. } => 0,
    };
    let mut piped: Option<Vec<u8>> = None;
    let mut outfile = outfile;
    if env == 2 {
        if let Some(i) = args.iter().position(|a| a == "-o") {
            args.drain(i..i + 2);
        }
        args.push("-o".into());
        args.push("/dev/full".into());
        outfile = None;
    }
    if env == 1 {
        if let Some(i) = args.iter().position(|a| a == "--convert") {
            piped = std::fs::read(&args[i + 1]).ok();
            args[i + 1] = "/dev/stdin".into();
        }
    }
    let sp = spawn_env("random_graph_gen", &args, &dir, piped.as_deref(), &[("RSBDD_VERIF_RNG_SEED", seed.to_string())], env == 0);
    let (output, file_created) = match &outfile {
        Some(p) => match std::fs::read(p) {
            Ok(b) => (b, true),
            Err(_) => (Vec::new(), false),
        },
        None => (sp.stdout.clone(), false),
    };
    let _ = std::fs::remove_dir_all(&dir);
    Outcome {
        sp,
        output,
        file_created,
    }
}

fn colourable(vertices: &[String], edges: &[(String, String)], k: usize) -> bool {
    let n = vertices.len();
    if n == 0 {
        return true;
    }
    if k == 0 {
        return false;
    }
    let idx = |s: &String| vertices.iter().position(|v| v == s).expect("vertex");
    let es: Vec<(usize, usize)> = edges.iter().map(|(a, b)| (idx(a), idx(b))).collect();
    let mut col = vec![0usize; n];
    loop {
        if es.iter().all(|(a, b)| col[*a] != col[*b]) {
            return true;
        }
        let mut i = 0;
        loop {
            if i == n {
                return false;
            }
            col[i] += 1;
            if col[i] < k {
                break;
            }
            col[i] = 0;
            i += 1;
        }
    }
}

fn covering_clique(vertices: &[String], out_edges: &[(String, String)], k: usize) -> bool {
    let n = vertices.len();
    if n == 0 {
        return true;
    }
    if k == 0 {
        return false;
    }
    let adj: BTreeSet<(String, String)> = out_edges
        .iter()
        .flat_map(|(a, b)| [(a.clone(), b.clone()), (b.clone(), a.clone())])
        .collect();
    let nodes: BTreeSet<String> = out_edges.iter().flat_map(|(a, b)| [a.clone(), b.clone()]).collect();
    let mut col = vec![0usize; n];
    loop {
        let chosen: Vec<String> = (0..n).map(|i| format!("{}_c{}", vertices[i], col[i])).collect();
        let all_present = n == 1 || chosen.iter().all(|c| nodes.contains(c));
        if all_present
            && (0..n).all(|i| ((i + 1)..n).all(|j| adj.contains(&(chosen[i].clone(), chosen[j].clone()))))
        {
            return true;
        }
        let mut i = 0;
        loop {
            if i == n {
                return false;
            }
            col[i] += 1;
            if col[i] < k {
                break;
            }
            col[i] = 0;
            i += 1;
        }
    }
}

pub fn execute(plan: &RgPlan) -> RunOutcome {
    let mut out = RunOutcome::default();
    let mut stats = Stats::new();
    out.plan_digest = digest_bytes(&serde_json::to_vec(plan).expect("plan serialises"));
    let first = run_once(plan, None);
    out.steps = 1;
    let mut trace = vec![first.sp.status.unwrap_or(-1) as u64, digest_bytes(&first.output)];
    let mut vs: Vec<Violation> = Vec::new();
    let status = first.sp.status;
    let text = String::from_utf8_lossy(&first.output).to_string();
    if status == Some(97) && first.sp.stderr.starts_with(b"killed by the simulator") {
        out.unjudged = Some("child process exceeded the wall-clock limit".into());
        return out;
    }

    if first.sp.signal || status == Some(101) {
        let msg = String::from_utf8_lossy(&first.sp.stderr);
        let loc = msg
            .lines()
            .find(|l| l.contains("panicked at"))
            .unwrap_or("")
            .to_string();
        let site = loc
            .split("panicked at ")
            .nth(1)
            .map(|s| s.trim_end_matches(':').to_string())
            .unwrap_or_else(|| "abort".into());
        let site = site.rsplit_once(':').map(|(a, _)| a.to_string()).unwrap_or(site);
        vs.push(viol(
            "G2",
            &crate::core::normalise_path(&site),
            format!("the generator panicked / was killed instead of answering or refusing: {}", msg.lines().take(3).collect::<Vec<_>>().join(" | ")),
        ));
    } else {
        match plan {
            RgPlan::Gen {
                v,
                e,
                undirected,
                complete,
                dot,
                to_file,
                stale,
                ..
            } => {
                if *to_file && *stale > 0 {
                    bump(&mut stats, "fault.fs-stale-output");
                }
                bump(&mut stats, &format!("probe.flags.u{}_complete{}_dot{}_file{}", *undirected as u8, *complete as u8, *dot as u8, *to_file as u8));
                let vv = v.unwrap_or(0);
                let max = if *undirected { vv * vv.saturating_sub(1) / 2 } else { vv * vv.saturating_sub(1) };
                let want: Option<usize> = if v.is_none() {
                    None
                } else if *complete {
                    Some(max)
                } else {
                    *e
                };
                let feasible = want.is_some_and(|w| w <= max);
                if feasible {
                    let w = want.expect("feasible");
                    if w > 0 && w < max {
                        bump(&mut stats, "probe.request.feasible_interior");
                        out.nontrivial = true;
                    } else {
                        bump(&mut stats, "probe.request.feasible_boundary");
                    }
                    if status != Some(0) {
                        vs.push(viol("G1", "refused-feasible", format!("a feasible request (V={vv}, E={w}, max {max}) was refused: exit {status:?}")));
                    } else {
                        match parse_edges(&text, *dot, *undirected) {
                            Err(e) => vs.push(viol(if *dot { "G7" } else { "G1" }, "format", e)),
                            Ok(edges) => {
                                if edges.len() != w {
                                    vs.push(viol("G1", "edge-count", format!("asked for {w} edges (V={vv}), got {}", edges.len())));
                                }
                                let mut seen = BTreeSet::new();
                                for (a, b) in &edges {
                                    let ok_name = |s: &String| s.strip_prefix('v').and_then(|n| n.parse::<usize>().ok()).is_some_and(|n| n < vv);
                                    if !ok_name(a) || !ok_name(b) {
                                        vs.push(viol("G1", "endpoint", format!("edge {a},{b} has an endpoint outside v0..v{}", vv.saturating_sub(1))));
                                    }
                                    if a == b {
                                        vs.push(viol("G1", "self-loop", format!("self loop {a},{b}")));
                                    }
                                    if !seen.insert((a.clone(), b.clone())) {
                                        vs.push(viol("G1", "duplicate", format!("edge {a},{b} appears twice")));
                                    }
                                    if *undirected && seen.contains(&(b.clone(), a.clone())) && a != b {
                                        vs.push(viol("G1", "both-orientations", format!("-u: pair {a},{b} appears in both orientations")));
                                    }
                                }
                                out.state_digests.push(digest_bytes(format!("{:?}", seen).as_bytes()));
                                // G7: the dot rendering is the same edge set
                                if !vs.iter().any(|_| true) {
                                    let other = run_once(plan, Some(!*dot));
                                    out.steps += 1;
                                    if other.sp.status == Some(0) {
                                        let t2 = String::from_utf8_lossy(&other.output).to_string();
                                        match parse_edges(&t2, !*dot, *undirected) {
                                            Ok(e2) if e2 == edges => {}
                                            Ok(_) => vs.push(viol("G7", "dot-vs-csv", "--dot output is not the same edge list as the plain output for the same RNG stream".into())),
                                            Err(e) => vs.push(viol("G7", "format", e)),
                                        }
                                    } else {
                                        vs.push(viol("G7", "dot-vs-csv", format!("same request with --dot toggled exits {:?}", other.sp.status)));
                                    }
                                }
                            }
                        }
                    }
                } else {
                    bump(&mut stats, "probe.request.infeasible_or_incomplete");
                    out.nontrivial = true;
                    if status == Some(0) {
                        vs.push(viol(
                            "G2",
                            "truncated",
                            format!("a request that cannot be met (V={v:?}, E={e:?}, max {max}, -u={undirected}) was answered with exit 0 and {} output lines instead of being refused", text.lines().count()),
                        ));
                    } else {
                        if first.sp.stderr.is_empty() {
                            vs.push(viol("G2", "silent", "refused without a message on stderr".into()));
                        }
                        // an output file that existed before a refused request may keep its old content
                        let old: String = if *to_file { (0..*stale).map(|i| format!("v9{i},v8{i}\n")).collect() } else { String::new() };
                        let file_touched = first.file_created && !first.output.is_empty() && first.output != old.as_bytes();
                        if !first.sp.stdout.is_empty() || file_touched {
                            vs.push(viol("G2", "partial-output", "refused, but edges were written".into()));
                        }
                    }
                }
            }
            RgPlan::Convert {
                edges,
                undirected,
                colors,
                dot,
                ..
            } => {
                bump(&mut stats, &format!("probe.convert.u{}_colors{}_dot{}", *undirected as u8, colors.map_or("none".to_string(), |k| k.to_string()), *dot as u8));
                out.nontrivial = !edges.is_empty();
                // reference: merge reversed duplicates under -u, in order
                let mut expect: Vec<(String, String)> = Vec::new();
                for (a, b) in edges {
                    if !(*undirected && expect.contains(&(b.clone(), a.clone()))) {
                        expect.push((a.clone(), b.clone()));
                    }
                }
                if status != Some(0) {
                    vs.push(viol("G5", "refused", format!("--convert of a well-formed edge list exits {status:?}: {}", String::from_utf8_lossy(&first.sp.stderr).lines().next().unwrap_or(""))));
                } else {
                    let commas = edges.iter().any(|(a, b)| a.contains(',') || b.contains(','));
                    if commas {
                        bump(&mut stats, "probe.convert.names_with_commas");
                    }
                    if commas && colors.is_none() {
                        // names containing the separator: compare the raw lines (names are printed verbatim)
                        let want: Vec<String> = if *dot {
                            expect.iter().map(|(a, b)| format!("{a} {} {b}", if *undirected { "--" } else { "->" })).collect()
                        } else {
                            expect.iter().map(|(a, b)| format!("{a},{b}")).collect()
                        };
                        let got: Vec<String> = if *dot {
                            match dot_edge_statements(&text) {
                                Ok(st) => st.into_iter().map(|(a, op, b)| format!("{a} {op} {b}")).collect(),
                                Err(e) => vec![format!("<{e}>")],
                            }
                        } else {
                            text.lines().map(|l| l.to_string()).collect()
                        };
                        if got != want {
                            vs.push(viol("G5", "edge-list", format!("--convert output lines {:?} differ from the input list (reversed duplicates merged under -u) {:?}", got, want)));
                        }
                    } else if commas {
                        // the colour graph's vertex names cannot be split reliably: judge the number of edges only
                        let mut verts: Vec<String> = Vec::new();
                        for (a, b) in edges {
                            for x in [a, b] {
                                if !verts.contains(x) {
                                    verts.push(x.clone());
                                }
                            }
                        }
                        let k = colors.expect("colors");
                        let adjacent = |a: &String, b: &String| edges.contains(&(a.clone(), b.clone())) || edges.contains(&(b.clone(), a.clone()));
                        let mut want_edges = 0usize;
                        for i in 0..verts.len() {
                            for j in (i + 1)..verts.len() {
                                // copies of two distinct vertices are joined unless same colour and adjacent
                                want_edges += k * k - if adjacent(&verts[i], &verts[j]) { k } else { 0 };
                            }
                        }
                        let got_edges = if *dot { dot_edge_statements(&text).map(|v| v.len()).unwrap_or(usize::MAX) } else { text.lines().filter(|l| !l.trim().is_empty()).count() };
                        if !edges.iter().any(|(a, b)| a == b) && got_edges != want_edges {
                            vs.push(viol("G6", "colour-edge-count", format!("the colour graph of {:?} with {k} colours has {got_edges} edges, expected {want_edges}", edges)));
                        }
                    } else {
                    // dot output of an augmented graph always uses the flag's arrow type
                    match parse_edges(&text, *dot, *undirected) {
                        Err(e) => vs.push(viol("G5", "format", e)),
                        Ok(got) => match colors {
                            None => {
                                if got != expect {
                                    vs.push(viol("G5", "edge-list", format!("--convert output {:?} differs from the input list (reversed duplicates merged under -u) {:?}", got, expect)));
                                }
                            }
                            Some(k) => {
                                let has_loop = edges.iter().any(|(a, b)| a == b);
                                let mut verts: Vec<String> = Vec::new();
                                for (a, b) in edges {
                                    for x in [a, b] {
                                        if !verts.contains(x) {
                                            verts.push(x.clone());
                                        }
                                    }
                                }
                                if !has_loop && !verts.is_empty() {
                                    let want = colourable(&verts, edges, *k);
                                    let have = covering_clique(&verts, &got, *k);
                                    bump(&mut stats, if want { "probe.colours.colourable" } else { "probe.colours.not_colourable" });
                                    if want != have {
                                        vs.push(viol(
                                            "G6",
                                            "colours",
                                            format!("input graph {:?} is {}{k}-colourable but the output graph {} a clique covering every input vertex", edges, if want { "" } else { "not " }, if have { "has" } else { "has no" }),
                                        ));
                                    }
                                } else {
                                    bump(&mut stats, "probe.colours.unjudged_loop_or_empty");
                                }
                            }
                        },
                    }
                    }
                }
            }
        }
    }

    // G3: replay — the same plan again gives byte-identical output
    // G8: .. also when the process starts in a removed working directory (all paths are absolute)
    // or when --convert reads its input through a pipe
    if vs.is_empty() {
        let env = env_variant(plan);
        let again = run_once_env(plan, None, env);
        out.steps += 1;
        let refused = !again.sp.signal && !matches!(again.sp.status, Some(0) | Some(101) | None);
        if env == 2 {
            // G9: output that cannot be written is an error, never a silent success
            bump(&mut stats, "fault.output-full");
            if first.sp.status == Some(0) && !first.output.is_empty() && !refused {
                vs.push(viol("G9", "output-full", format!("the same request with -o /dev/full (every write fails) ends with {:?}{} instead of reporting an error", again.sp.status, if again.sp.signal { " (signal)" } else { "" })));
            }
        } else if env == 1 && refused && first.sp.status == Some(0) {
            // a tool that refuses to convert from a pipe, with a message, reports an error
            bump(&mut stats, "probe.input-pipe-refused");
        } else if again.sp.status != first.sp.status || again.output != first.output {
            match env {
                0 => vs.push(viol("G8", "cwd-removed", format!("the same request started in a removed working directory (absolute paths only) ends with {:?} instead of {:?} / prints something else: {}", again.sp.status, first.sp.status, String::from_utf8_lossy(&again.sp.stderr).lines().take(2).collect::<Vec<_>>().join(" | ")))),
                1 => vs.push(viol("G8", "input-pipe", format!("the same --convert request reading its input through a pipe (/dev/stdin) ends with {:?} instead of {:?} / prints something else", again.sp.status, first.sp.status))),
                _ => vs.push(viol("G3", "replay", "the same request with the same RNG seed produced a different output".into())),
            }
        }
        match env {
            0 => bump(&mut stats, "fault.cwd-removed"),
            1 => bump(&mut stats, "fault.input-pipe"),
            _ => {}
        }
        bump(&mut stats, "fault.rng-seeded");
    }
    trace.push(vs.len() as u64);
    out.trace_digest = mix(&trace);
    out.violations = vs;
    out.stats = stats;
    out
}

pub fn minimise(plan: &RgPlan, v: &Violation) -> (RgPlan, Violation) {
    let same = |p: &RgPlan| -> Option<Violation> {
        execute(p).violations.into_iter().find(|x| x.oracle == v.oracle && x.site == v.site)
    };
    let mut best = plan.clone();
    let mut best_v = v.clone();
    let mut budget = 150usize;
    loop {
        let mut cands: Vec<RgPlan> = Vec::new();
        match &best {
            RgPlan::Gen {
                v,
                e,
                undirected,
                complete,
                dot,
                to_file,
                rng_seed,
                stale,
            } => {
                let st = *stale;
                let mk = |v: Option<usize>, e: Option<usize>, u: bool, c: bool, d: bool, f: bool, s: u64| RgPlan::Gen {
                    v,
                    e,
                    undirected: u,
                    complete: c,
                    dot: d,
                    to_file: f,
                    rng_seed: s,
                    stale: if f { st } else { 0 },
                };
                if st > 1 {
                    cands.push(RgPlan::Gen {
                        v: *v,
                        e: *e,
                        undirected: *undirected,
                        complete: *complete,
                        dot: *dot,
                        to_file: *to_file,
                        rng_seed: *rng_seed,
                        stale: 0,
                    });
                }
                if *to_file {
                    cands.push(mk(*v, *e, *undirected, *complete, *dot, false, *rng_seed));
                }
                if *dot {
                    cands.push(mk(*v, *e, *undirected, *complete, false, *to_file, *rng_seed));
                }
                if *complete {
                    cands.push(mk(*v, *e, *undirected, false, *dot, *to_file, *rng_seed));
                }
                if *rng_seed != 0 {
                    cands.push(mk(*v, *e, *undirected, *complete, *dot, *to_file, 0));
                }
                if let Some(vv) = v {
                    if *vv > 0 {
                        cands.push(mk(Some(vv - 1), *e, *undirected, *complete, *dot, *to_file, *rng_seed));
                    }
                }
                if let Some(ee) = e {
                    if *ee > 0 {
                        cands.push(mk(*v, Some(ee - 1), *undirected, *complete, *dot, *to_file, *rng_seed));
                    }
                }
                if *undirected {
                    cands.push(mk(*v, *e, false, *complete, *dot, *to_file, *rng_seed));
                }
            }
            RgPlan::Convert {
                edges,
                undirected,
                colors,
                dot,
                to_file,
                stale,
                in_place,
            } => {
                for i in 0..edges.len() {
                    let mut e2 = edges.clone();
                    e2.remove(i);
                    cands.push(RgPlan::Convert {
                        edges: e2,
                        undirected: *undirected,
                        colors: *colors,
                        dot: *dot,
                        to_file: *to_file,
                        stale: *stale,
                        in_place: *in_place,
                    });
                }
                if *to_file || *dot {
                    cands.push(RgPlan::Convert {
                        edges: edges.clone(),
                        undirected: *undirected,
                        colors: *colors,
                        dot: false,
                        to_file: false,
                        stale: 0,
                        in_place: *in_place,
                    });
                }
                if let Some(k) = colors {
                    if *k > 0 {
                        cands.push(RgPlan::Convert {
                            edges: edges.clone(),
                            undirected: *undirected,
                            colors: Some(k - 1),
                            dot: *dot,
                            to_file: *to_file,
                            stale: *stale,
                            in_place: *in_place,
                        });
                    }
                }
            }
        }
        let mut improved = false;
        for c in cands {
            if budget == 0 {
                break;
            }
            budget -= 1;
            if let Some(nv) = same(&c) {
                best = c;
                best_v = nv;
                improved = true;
                break;
            }
        }
        if !improved || budget == 0 {
            break;
        }
    }
    (best, best_v)
}
