//! clisim — the real `rsbdd` process under a simulator that owns its whole outside world:
//! argv, stdin bytes (and how they are chunked), every input and output file, the working
//! directory, the tick budget. One plan = a base invocation plus variant invocations whose
//! stdout must be byte-identical (other input channel, other repetition count, ordering
//! exported with -r and fed back with -o). The reference model is `model::fast` (truth tables).
//!
//! Oracles: T1-T8 (C10), O1-O3 (C11); O4 (API orderings) runs in process.

use std::collections::BTreeMap;
use std::fs::File;
use std::io::Write;
use std::path::{Path, PathBuf};
use std::process::{Command, Stdio};
use std::rc::Rc;

use serde::{Deserialize, Serialize};

use crate::core::{bump, catch, Caught, RunOutcome, Stats, Violation};
use crate::model::fast::{self, Evaluator, Printer, F};
use crate::model::table::{judge_table, judge_vars, parse_stdout, Cell, Expect, Parsed};
use crate::model::tt::TT;
use crate::prng::{digest_bytes, mix, Prng};
use crate::sims::rgsim::{bin_dir, run_dir, Spawned};

pub const SIM_ID: u64 = 3;
pub const CHILD_BUDGET: u64 = 1 << 22;

#[derive(Clone, Debug, PartialEq, Eq, Serialize, Deserialize)]
pub enum Channel {
    /// --evaluate=<text>
    Evaluate,
    /// positional FILE argument
    File,
    /// stdin redirected from a file
    StdinFile,
    /// stdin is a pipe, written in chunks of these sizes (then the rest)
    StdinPipe(Vec<usize>),
}

impl Channel {
    pub fn name(&self) -> &'static str {
        match self {
            Channel::Evaluate => "evaluate",
            Channel::File => "file",
            Channel::StdinFile => "stdin-file",
            Channel::StdinPipe(_) => "stdin-pipe",
        }
    }
}

#[derive(Clone, Debug, PartialEq, Eq, Serialize, Deserialize)]
pub struct OrdToken {
    pub text: String,
    pub is_name: bool,
}

#[derive(Clone, Debug, PartialEq, Eq, Serialize, Deserialize)]
pub struct OrderingSpec {
    pub kind: String,
    pub tokens: Vec<OrdToken>,
    pub sep: String,
}

impl OrderingSpec {
    pub fn bytes(&self) -> Vec<u8> {
        self.tokens.iter().map(|t| t.text.clone()).collect::<Vec<_>>().join(&self.sep).into_bytes()
    }
    /// distinct names in order of first appearance: the ids 0.. the CLI will assign
    pub fn names(&self) -> Vec<String> {
        let mut v: Vec<String> = Vec::new();
        for t in &self.tokens {
            if t.is_name && !v.contains(&t.text) {
                v.push(t.text.clone());
            }
        }
        v
    }
}

#[derive(Clone, Debug, PartialEq, Eq, Serialize, Deserialize)]
pub struct Wide {
    /// literal polarities, one per variable x0.. (text order)
    pub positive: Vec<bool>,
    /// operator after literal i (true = and, false = or); len = positive.len() - 1
    pub and_after: Vec<bool>,
    pub prefix: String,
}

impl Wide {
    pub fn names(&self) -> Vec<String> {
        (0..self.positive.len()).map(|i| format!("{}{}", self.prefix, i)).collect()
    }
    pub fn text(&self) -> String {
        let mut s = String::new();
        for (i, p) in self.positive.iter().enumerate() {
            if i > 0 {
                s.push_str(if self.and_after[i - 1] { " & " } else { " | " });
            }
            if !*p {
                s.push('-');
            }
            s.push_str(&format!("{}{}", self.prefix, i));
        }
        s
    }
    /// Kleene evaluation under a partial assignment (exact: the formula is read-once)
    pub fn eval3(&self, cells: &[Cell]) -> Option<bool> {
        let n = self.positive.len();
        let lit = |i: usize| -> Option<bool> {
            match cells[i] {
                Cell::Any => None,
                Cell::True => Some(self.positive[i]),
                Cell::False => Some(!self.positive[i]),
            }
        };
        let mut acc = lit(n - 1);
        for i in (0..n - 1).rev() {
            let l = lit(i);
            acc = if self.and_after[i] {
                match (l, acc) {
                    (Some(false), _) | (_, Some(false)) => Some(false),
                    (Some(true), Some(true)) => Some(true),
                    _ => None,
                }
            } else {
                match (l, acc) {
                    (Some(true), _) | (_, Some(true)) => Some(true),
                    (Some(false), Some(false)) => Some(false),
                    _ => None,
                }
            };
        }
        acc
    }
    /// number of satisfying assignments
    pub fn sat_count(&self) -> u128 {
        let n = self.positive.len();
        let mut acc: u128 = 1; // last literal: one of two values satisfies
        let mut vars_below: u32 = 1;
        for i in (0..n - 1).rev() {
            acc = if self.and_after[i] { acc } else { (1u128 << vars_below) + acc };
            vars_below += 1;
        }
        acc
    }
}

#[derive(Clone, Debug, PartialEq, Eq, Serialize, Deserialize)]
pub enum Variant {
    Channel(Channel),
    Repeat(usize),
    /// same invocation, other way of passing it (relative paths / @argfile)
    Style(u8),
}

#[derive(Clone, Debug, PartialEq, Eq, Serialize, Deserialize)]
pub struct TablePlan {
    pub property: String,
    pub formula: Option<F>,
    pub print_seed: u64,
    pub noise: u8,
    pub wide: Option<Wide>,
    pub channel: Channel,
    pub filter: u8,
    pub filter_spelling: String,
    pub t: bool,
    pub v: bool,
    pub m: bool,
    pub r: bool,
    pub b: Option<usize>,
    pub ordering: Option<OrderingSpec>,
    pub variants: Vec<Variant>,
    /// C11-O3: export the order with -r, feed it back with -o, compare tables
    pub round_trip: bool,
    /// C11-O2: also run without -o and compare the functions by name
    pub compare_default_order: bool,
    /// C11-O4: in-process API ordering: (name, id) entries in vector order; distinct names, distinct
    /// possibly non-contiguous ids in any order; may list only some of the text's names and names
    /// the text does not use
    pub api_ids: Option<Vec<(String, usize)>>,
    /// C10: pad the text with a leading comment so that its first non-ASCII character straddles
    /// this byte offset (a multiple of the default BufReader capacity)
    #[serde(default)]
    pub straddle: Option<usize>,
    /// reference family: the text becomes `{name} <op> ( text )`. References are outside what the
    /// reference model speaks about, so such runs are judged only by T7/T8 (identical stdout across
    /// channels and repetition counts) and by their exit status.
    #[serde(default)]
    pub ref_prefix: Option<(String, String)>,
    /// pad the text with a leading comment to exactly this many bytes (lengths around buffer sizes)
    #[serde(default)]
    pub pad_total: Option<usize>,
    /// blow-up family: `[false &] ((a0 <=> b0) & .. & (a(n-1) <=> b(n-1)))` under an ordering file
    /// that lists all a's before all b's, so that one evaluation interns thousands of nodes
    /// (environment size is the simulated dimension; with the `false &` prefix the result is a
    /// constant). Judged by T7/T8 and exit status only.
    #[serde(default)]
    pub blowup: Option<(usize, bool)>,
}

const FILTER_SPELLINGS: [&[&str]; 3] = [
    &["any", "Any", "a", "A", "*"],
    &["true", "True", "t", "T", "1"],
    &["false", "False", "f", "F", "0"],
];

fn gen_channel(rng: &mut Prng) -> Channel {
    match rng.below(4) {
        0 => Channel::Evaluate,
        1 => Channel::File,
        2 => Channel::StdinFile,
        _ => {
            let k = rng.range(0, 6);
            Channel::StdinPipe((0..k).map(|_| rng.range(1, 9)).collect())
        }
    }
}

pub fn gen_ordering(rng: &mut Prng, text_names: &[String]) -> OrderingSpec {
    let unused = ["zz", "unused_1", "w'", "Ω", "k9"];
    let unused: Vec<String> = unused.iter().map(|s| s.to_string()).filter(|u| !text_names.contains(u)).collect();
    let mut names: Vec<String> = text_names.to_vec();
    let kind = *rng.pick(&[
        "identity",
        "permutation",
        "permutation",
        "subset",
        "superset-before",
        "superset-between",
        "superset-after",
        "duplicates",
        "reversed",
        "rotation",
    ]);
    match kind {
        "identity" => {}
        "reversed" => names.reverse(),
        "rotation" => {
            if !names.is_empty() {
                let k = rng.below(names.len());
                names.rotate_left(k);
            }
        }
        _ => rng.shuffle(&mut names),
    }
    if kind == "subset" && !names.is_empty() {
        let keep = rng.below(names.len());
        names.truncate(keep);
    }
    let mut toks: Vec<OrdToken> = names.into_iter().map(|n| OrdToken { text: n, is_name: true }).collect();
    let nm = |s: &String| OrdToken {
        text: s.clone(),
        is_name: true,
    };
    if !unused.is_empty() {
        match kind {
            "superset-before" => {
                let k = rng.range(1, 2.min(unused.len()));
                for u in unused.iter().take(k) {
                    toks.insert(0, nm(u));
                }
            }
            "superset-between" => {
                let k = rng.range(1, 2.min(unused.len()));
                for u in unused.iter().take(k) {
                    let pos = if toks.len() >= 2 { rng.range(1, toks.len() - 1) } else { toks.len() };
                    toks.insert(pos, nm(u));
                }
            }
            "superset-after" => {
                let k = rng.range(1, 2.min(unused.len()));
                for u in unused.iter().take(k) {
                    toks.push(nm(u));
                }
            }
            _ => {}
        }
    }
    if kind == "duplicates" && !toks.is_empty() {
        let k = rng.range(1, 3);
        for _ in 0..k {
            let t = toks[rng.below(toks.len())].clone();
            let pos = rng.below(toks.len() + 1);
            toks.insert(pos, t);
        }
    }
    let mut kind = kind.to_string();
    if rng.chance(1, 14) {
        // a long ordering file: the number of distinct names straddles a power of two, the
        // formula's own names sit right before / across / after the boundary
        kind.push_str("+long");
        let total = *rng.pick(&[63usize, 64, 65, 255, 256, 257, 1023, 1024, 1025, 1026, 4095, 4097]);
        let have = toks.iter().filter(|t| t.is_name).count();
        let fill = total.saturating_sub(have);
        let split = match rng.below(3) {
            0 => 0,
            1 => fill,
            _ => rng.below(fill + 1),
        };
        let mut all: Vec<OrdToken> = Vec::with_capacity(total + 8);
        for i in 0..split {
            all.push(OrdToken { text: format!("pad_{i}"), is_name: true });
        }
        all.append(&mut toks);
        for i in split..fill {
            all.push(OrdToken { text: format!("pad_{i}"), is_name: true });
        }
        toks = all;
    }
    if rng.chance(1, 4) {
        kind.push_str("+junk");
        let junk = [",", ";", "12", "007", "and", "\"a comment with words x y\"", "(", ")", "=>", "#", "true", "not", "{ref}", "[", "]", "<=>", "~"];
        let k = rng.range(1, 4);
        for _ in 0..k {
            let pos = rng.below(toks.len() + 1);
            toks.insert(
                pos,
                OrdToken {
                    text: rng.pick(&junk).to_string(),
                    is_name: false,
                },
            );
        }
    }
    OrderingSpec {
        kind,
        tokens: toks,
        sep: rng.pick(&["\n", " ", "\r\n", "\t", "  \n"]).to_string(),
    }
}

pub fn gen_table_plan(rng: &mut Prng, property: &str, thorough: bool) -> TablePlan {
    let c11 = property == "C11";
    let wide = if !c11 && rng.chance(1, 10) {
        let n = match rng.below(6) {
            0 => rng.range(1, 8),
            1 => rng.range(9, 60),
            2 => 64,
            3 => 65,
            _ => rng.range(61, 80),
        };
        Some(Wide {
            positive: (0..n).map(|_| rng.chance(2, 3)).collect(),
            and_after: (0..n.saturating_sub(1)).map(|_| rng.chance(2, 3)).collect(),
            prefix: rng.pick(&["x", "v_", "q"]).to_string(),
        })
    } else {
        None
    };
    let formula = if wide.is_none() {
        let cfg = fast::gen_cfg(rng, if thorough { 8 } else { 6 }, if thorough { 7 } else { 5 });
        Some(fast::gen_formula(rng, &cfg))
    } else {
        None
    };
    let text_names: Vec<String> = match (&formula, &wide) {
        (Some(f), _) => f.names_in_text_order(),
        (_, Some(w)) => w.names(),
        _ => vec![],
    };
    let blowup = if !c11 && wide.is_none() && rng.chance(1, 30) { Some((rng.range(9, 13), rng.chance(2, 3))) } else { None };
    let want_ordering = if c11 { true } else { wide.is_none() && rng.chance(1, 3) };
    let mut ordering = if want_ordering { Some(gen_ordering(rng, &text_names)) } else { None };
    if let Some((n, _)) = blowup {
        let toks: Vec<OrdToken> = (0..n)
            .map(|i| format!("a{i}"))
            .chain((0..n).map(|i| format!("b{i}")))
            .map(|t| OrdToken { text: t, is_name: true })
            .collect();
        ordering = Some(OrderingSpec {
            kind: "blowup".into(),
            tokens: toks,
            sep: "\n".into(),
        });
    }
    let filter = rng.below(3) as u8;
    let mut variants = Vec::new();
    if !c11 {
        let k = rng.range(1, 3);
        for _ in 0..k {
            if rng.chance(1, 5) {
                variants.push(Variant::Style(match rng.below(6) {
                    0 => 8,
                    1 => 16,
                    2 => 8 | rng.below(8) as u8,
                    _ => rng.range(1, 7) as u8,
                }));
            } else if rng.coin() {
                variants.push(Variant::Channel(gen_channel(rng)));
            } else {
                variants.push(Variant::Repeat(if rng.chance(1, 10) { *rng.pick(&[5usize, 8, 12, 16, 17, 32, 64, 65, 100, 128, 256, 257]) } else { rng.range(1, 4) }));
            }
        }
    }
    if c11 && rng.chance(1, 3) {
        // O5: the same ordering file handed over in another way
        variants.push(Variant::Style(match rng.below(4) {
            0 => 8,
            1 => 8 | rng.below(8) as u8,
            2 => 16,
            _ => rng.range(1, 7) as u8,
        }));
    }
    if blowup.is_some() {
        variants.push(Variant::Repeat(rng.range(2, 3)));
    }
    let t = c11 || rng.chance(4, 5);
    let v = rng.chance(1, 3);
    let api_ids = if c11 && rng.chance(1, 2) {
        // distinct ids with gaps, for a subset / superset of the text's names, in any vector order
        let mut names: Vec<String> = text_names.clone();
        rng.shuffle(&mut names);
        if rng.chance(1, 2) && !names.is_empty() {
            let keep = rng.below(names.len() + 1);
            names.truncate(keep);
        }
        // unused entries; an API ordering may also carry a symbol whose name is a reserved word of
        // the formula language (the text's keywords stay keywords)
        for u in ["zz_api", "unused'", "true", "false", "and", "or", "in", "all", "nu", "not", "exists"] {
            if rng.chance(1, 6) && !text_names.iter().any(|n| n == u) {
                let pos = rng.below(names.len() + 1);
                names.insert(pos, u.to_string());
            }
        }
        let mut ids: Vec<usize> = Vec::new();
        let mut next = rng.below(3);
        for _ in 0..names.len() {
            ids.push(next);
            next += *rng.pick(&[1usize, 1, 2, 3, 3, 1000, 1 << 33, 1 << 45]);
        }
        rng.shuffle(&mut ids);
        if ids.len() >= 2 && rng.chance(1, 4) {
            // `hash-collision`: one listed id is the one for which x_M collides with -x_j
            let j = ids[0];
            let m = crate::fx::id_colliding_with_negated(j as u64) as usize;
            if !ids.contains(&m) {
                ids[1] = m;
            }
        }
        Some(names.into_iter().zip(ids).collect())
    } else {
        None
    };
    let straddle = if !c11 && wide.is_none() && rng.chance(1, 6) { Some(8192 * rng.range(1, 2)) } else { None };
    let pad_total = if !c11 && wide.is_none() && straddle.is_none() && rng.chance(1, 12) {
        Some(*rng.pick(&[255usize, 256, 257, 1023, 1024, 1025, 4095, 4096, 4097, 8191, 8192, 8193, 16383, 16384, 16385, 32768, 65535, 65536]))
    } else {
        None
    };
    fn fix_names(f: &F, out: &mut Vec<String>) {
        if let F::Fix(_, n, _) = f {
            out.push(n.clone());
        }
        for c in f.children() {
            fix_names(c, out);
        }
    }
    let ref_prefix = match &formula {
        Some(f) if !c11 && rng.chance(1, 8) => {
            let mut fx = Vec::new();
            fix_names(f, &mut fx);
            let name = if !fx.is_empty() && rng.chance(3, 4) { rng.pick(&fx).clone() } else { rng.pick(&["X", "r1", "a"]).to_string() };
            variants.push(Variant::Repeat(rng.range(2, 4)));
            Some((name, rng.pick(&["^", "|", "&", "<=>", "=>"]).to_string()))
        }
        _ => None,
    };
    TablePlan {
        property: property.to_string(),
        formula,
        print_seed: rng.next_u64(),
        noise: rng.below(3) as u8,
        wide,
        channel: gen_channel(rng),
        filter,
        filter_spelling: rng.pick(FILTER_SPELLINGS[filter as usize]).to_string(),
        t: t || !v,
        v,
        m: rng.chance(1, 5),
        r: rng.chance(1, 4),
        b: if rng.chance(1, 6) { Some(rng.range(1, 3)) } else { None },
        ordering,
        variants,
        round_trip: c11 && rng.chance(1, 3),
        compare_default_order: c11 && rng.chance(1, 2),
        api_ids,
        straddle,
        ref_prefix,
        blowup,
        pad_total,
    }
}

// ---------------------------------------------------------------------------------------------
// Spawning
// ---------------------------------------------------------------------------------------------

pub struct Invocation<'a> {
    pub text: &'a [u8],
    pub channel: &'a Channel,
    pub args: Vec<String>,
    pub ordering: Option<&'a [u8]>,
    /// bit 0: file arguments are given relative to the working directory; bit 1: all arguments
    /// are passed through an @argfile (one per line) instead of argv
    pub style: u8,
}

pub fn run_rsbdd(dir: &Path, inv: &Invocation) -> Spawned {
    let mut args: Vec<String> = Vec::new();
    let mut stdin_file: Option<File> = None;
    let mut stdin_pipe: Option<&Vec<usize>> = None;
    match inv.channel {
        Channel::Evaluate => args.push(format!("--evaluate={}", String::from_utf8_lossy(inv.text))),
        Channel::File => {
            let p = dir.join("f.txt");
            std::fs::write(&p, inv.text).expect("tmpfs write");
            args.push(if inv.style & 1 == 1 { "f.txt".to_string() } else { p.to_string_lossy().to_string() });
        }
        Channel::StdinFile => {
            let p = dir.join("f.txt");
            std::fs::write(&p, inv.text).expect("tmpfs write");
            stdin_file = Some(File::open(&p).expect("tmpfs open"));
        }
        Channel::StdinPipe(chunks) => stdin_pipe = Some(chunks),
    }
    // style bit 4 (16) = `cwd-removed`: the process starts in a directory that no longer exists, so
    // every path is absolute and there is no @argfile; style bit 3 (8) = `ordering-pipe`: the
    // ordering is read through a pipe (`-o /dev/stdin`) when stdin is not used for the formula
    let cwd_removed = inv.style & 16 == 16;
    let style = if cwd_removed { inv.style & !3 } else { inv.style };
    let mut ordering_pipe: Option<&[u8]> = None;
    if cwd_removed {
        if let Some(last) = args.last_mut() {
            if last == "f.txt" {
                *last = dir.join("f.txt").to_string_lossy().to_string();
            }
        }
    }
    if let Some(o) = inv.ordering {
        let p = dir.join("o.txt");
        std::fs::write(&p, o).expect("tmpfs write");
        args.push("-o".into());
        if style & 8 == 8 && matches!(inv.channel, Channel::Evaluate | Channel::File) {
            args.push("/dev/stdin".into());
            ordering_pipe = Some(o);
        } else {
            args.push(if style & 1 == 1 { "o.txt".to_string() } else { p.to_string_lossy().to_string() });
        }
    }
    args.extend(inv.args.iter().cloned());
    if style & 4 == 4 {
        // the same arguments in reverse order (an option keeps its value)
        let takes_value = ["-o", "-f", "-b", "-d", "-p", "-c", "-e"];
        let mut units: Vec<Vec<String>> = Vec::new();
        let mut i = 0;
        while i < args.len() {
            if takes_value.contains(&args[i].as_str()) && i + 1 < args.len() {
                units.push(vec![args[i].clone(), args[i + 1].clone()]);
                i += 2;
            } else {
                units.push(vec![args[i].clone()]);
                i += 1;
            }
        }
        units.reverse();
        args = units.into_iter().flatten().collect();
    }
    if style & 2 == 2 && args.iter().all(|a| !a.contains('\n') && !a.contains('\r') && !a.is_empty() && a.trim() == a) {
        // argfile: one argument per line; only when every argument survives that encoding verbatim
        std::fs::write(dir.join("args.txt"), args.join("\n")).expect("tmpfs write");
        args = vec!["@args.txt".to_string()];
    }
    let mut cmd = if cwd_removed {
        super::rgsim::command_in_removed_cwd(&bin_dir().join("rsbdd"), &args, dir)
    } else {
        let mut c = Command::new(bin_dir().join("rsbdd"));
        c.args(&args);
        c
    };
    cmd.current_dir(dir)
        .env_clear()
        .env("PATH", format!("{}/bin:/usr/bin:/bin", dir.display()))
        .env("RSBDD_VERIF_BUDGET", CHILD_BUDGET.to_string())
        .stdout(Stdio::piped())
        .stderr(Stdio::piped());
    if let Some(f) = stdin_file {
        cmd.stdin(Stdio::from(f));
    } else if stdin_pipe.is_some() || ordering_pipe.is_some() {
        cmd.stdin(Stdio::piped());
    } else {
        cmd.stdin(Stdio::null());
    }
    let mut child = cmd.spawn().unwrap_or_else(|e| {
        eprintln!("harness error: cannot spawn rsbdd: {e}");
        std::process::exit(2);
    });
    if let Some(chunks) = stdin_pipe {
        if let Some(mut si) = child.stdin.take() {
            let mut pos = 0usize;
            for c in chunks {
                if pos >= inv.text.len() {
                    break;
                }
                let end = (pos + *c).min(inv.text.len());
                if si.write_all(&inv.text[pos..end]).is_err() {
                    break;
                }
                let _ = si.flush();
                pos = end;
            }
            let _ = si.write_all(&inv.text[pos.min(inv.text.len())..]);
        }
    }
    if let Some(o) = ordering_pipe {
        if let Some(mut si) = child.stdin.take() {
            let _ = si.write_all(o);
        }
    }
    super::rgsim::wait_watched(child)
}

fn viol(property: &str, oracle: &str, site: &str, detail: String) -> Violation {
    Violation {
        property: property.into(),
        oracle: oracle.into(),
        site: site.into(),
        step: 0,
        detail,
    }
}

pub fn panic_site(stderr: &[u8]) -> String {
    let msg = String::from_utf8_lossy(stderr);
    for l in msg.lines() {
        if let Some(rest) = l.split("panicked at ").nth(1) {
            let r = rest.trim_end_matches(':');
            // file:line:col -> file:line
            let r = r.rsplit_once(':').map(|(a, _)| a).unwrap_or(r);
            return crate::core::normalise_path(r);
        }
    }
    "no-panic-message".into()
}

fn base_args(p: &TablePlan, b: Option<usize>) -> Vec<String> {
    let mut a = Vec::new();
    if p.t {
        a.push("-t".to_string());
    }
    if p.v {
        a.push("-v".to_string());
    }
    if p.m {
        a.push("-m".to_string());
    }
    if p.r {
        a.push("-r".to_string());
    }
    if p.filter != 0 || p.filter_spelling != "any" {
        a.push("-f".to_string());
        a.push(p.filter_spelling.clone());
    }
    if let Some(n) = b {
        a.push("-b".to_string());
        a.push(n.to_string());
    }
    a
}

/// ids the CLI assigns: ordering names first (by first appearance), then the text's other names
fn variable_order(ord: Option<&OrderingSpec>, text_names: &[String]) -> Vec<String> {
    let mut order: Vec<String> = ord.map(|o| o.names()).unwrap_or_default();
    for n in text_names {
        if !order.contains(n) {
            order.push(n.clone());
        }
    }
    order
}

struct Model {
    text: String,
    text_names: Vec<String>,
    free: Vec<String>,
    func: Option<TT>,
    /// most rounds any single fixed point of the formula needs (reach probe)
    fix_rounds: u64,
}

fn model_of(p: &TablePlan) -> Result<Model, String> {
    if let Some(w) = &p.wide {
        let names = w.names();
        return Ok(Model {
            text: w.text(),
            free: names.clone(),
            text_names: names,
            func: None,
            fix_rounds: 0,
        });
    }
    if let Some((n, with_false)) = p.blowup {
        let chain = (0..n).map(|i| format!("(a{i} <=> b{i})")).collect::<Vec<_>>().join(" & ");
        let text = if with_false { format!("false & ( {chain} )") } else { chain };
        let names: Vec<String> = (0..n).flat_map(|i| [format!("a{i}"), format!("b{i}")]).collect();
        return Ok(Model {
            text,
            free: names.clone(),
            text_names: names,
            func: None,
            fix_rounds: 0,
        });
    }
    let f = p.formula.as_ref().ok_or("plan without formula")?;
    let mut prng = Prng::new(p.print_seed);
    let mut text = Printer::noisy(&mut prng, p.noise).print(f);
    if let Some((name, op)) = &p.ref_prefix {
        text = format!("{{{name}}} {op} ( {text} )");
    }
    if let Some(total) = p.pad_total {
        if total >= text.len() + 3 {
            let pad = total - text.len();
            text = format!("\"{}\"\n{}", "y".repeat(pad - 3), text);
        }
    }
    if let Some(at) = p.straddle {
        // leading comment of exactly the length that puts the first non-ASCII character's first
        // byte at offset at-1 (so the character straddles a read-buffer boundary)
        if let Some(pos) = text.bytes().position(|b| b >= 0x80) {
            let pad = at - 1 - (pos % at);
            if pad >= 3 {
                text = format!("\"{}\"\n{}", "x".repeat(pad - 3), text);
            }
        }
    }
    let text_names = f.names_in_text_order();
    let mut ev = Evaluator::new(&text_names).map_err(|e| format!("{e:?}"))?;
    let func = ev.eval(f).map_err(|e| format!("{e:?}"))?;
    let fix_rounds = ev.max_rounds;
    Ok(Model {
        text,
        free: f.free_names(),
        text_names,
        func: Some(func),
        fix_rounds,
    })
}

fn judge_wide(p: &TablePlan, w: &Wide, parsed: &Parsed, vs: &mut Vec<Violation>) {
    let prop = p.property.as_str();
    let n = w.positive.len();
    if let Some(h) = &parsed.header {
        if *h != w.names() {
            vs.push(viol(prop, "T1", "wide", format!("header has {} columns / wrong names for a formula over {n} variables in text order", h.len())));
            return;
        }
        // T2: pairwise disjoint cubes
        for i in 0..parsed.rows.len() {
            for j in (i + 1)..parsed.rows.len() {
                let (a, b) = (&parsed.rows[i].cells, &parsed.rows[j].cells);
                let disjoint = a.iter().zip(b).any(|(x, y)| matches!((x, y), (Cell::True, Cell::False) | (Cell::False, Cell::True)));
                if !disjoint {
                    vs.push(viol(prop, "T2", "wide", format!("rows {i} and {j} of a {n}-variable table overlap")));
                    return;
                }
            }
        }
        // T3 + T4
        let mut cover_true: u128 = 0;
        let mut cover_false: u128 = 0;
        for (k, r) in parsed.rows.iter().enumerate() {
            match w.eval3(&r.cells) {
                // with -m the table is the table of one model cube: its False rows say nothing
                // about the formula, they only complete the partition
                _ if p.m && !r.result => {}
                Some(v) if v == r.result => {}
                Some(v) => {
                    vs.push(viol(prop, "T3", "wide", format!("row {k} of a {n}-variable table is marked {} but the formula is {v} on every assignment it covers", r.result)));
                    return;
                }
                None => {
                    vs.push(viol(prop, "T3", "wide", format!("row {k} of a {n}-variable table does not determine the formula's value")));
                    return;
                }
            }
            let fixed = r.cells.iter().filter(|c| **c != Cell::Any).count() as u32;
            let weight = 1u128 << (n as u32 - fixed);
            if r.result {
                cover_true += weight;
            } else {
                cover_false += weight;
            }
        }
        let sat = w.sat_count();
        let total = 1u128 << n as u32;
        if !p.m {
            let (want_t, want_f) = match p.filter {
                1 => (sat, 0),
                2 => (0, total - sat),
                _ => (sat, total - sat),
            };
            if cover_true != want_t || cover_false != want_f {
                vs.push(viol(prop, "T4", "wide", format!("{n}-variable table covers {cover_true} satisfying / {cover_false} falsifying assignments, expected {want_t} / {want_f}")));
                return;
            }
        } else {
            if p.filter != 2 && (parsed.rows.iter().filter(|r| r.result).count() != 1) {
                vs.push(viol(prop, "T6", "wide", "-m did not print exactly one satisfying row for a satisfiable wide formula".into()));
                return;
            }
            if p.filter == 0 && cover_true + cover_false != total {
                vs.push(viol(prop, "T6", "wide", "with -m the rows no longer cover every assignment exactly once".into()));
                return;
            }
        }
    }
    if p.v {
        let names = w.names();
        let mut covered: u128 = 0;
        for (k, line) in parsed.var_lines.iter().enumerate() {
            let mut cells = vec![Cell::False; n];
            for (name, starred) in line {
                match names.iter().position(|x| x == name) {
                    Some(i) => cells[i] = if *starred { Cell::Any } else { Cell::True },
                    None => {
                        vs.push(viol(prop, "T5", "wide", format!("-v line {k} lists unknown name {name:?}")));
                        return;
                    }
                }
            }
            if w.eval3(&cells) != Some(true) {
                vs.push(viol(prop, "T5", "wide", format!("-v line {k} of a {n}-variable formula is not a satisfying cube")));
                return;
            }
            let fixed = cells.iter().filter(|c| **c != Cell::Any).count() as u32;
            covered += 1u128 << (n as u32 - fixed);
        }
        if !p.m && covered != w.sat_count() {
            vs.push(viol(prop, "T5", "wide", format!("-v lines cover {covered} assignments, the formula has {} satisfying ones", w.sat_count())));
        }
    }
}

fn function_by_name(parsed: &Parsed, text_names: &[String]) -> Option<(TT, TT)> {
    // (union of True rows, union of False rows) over the text's names
    let n = text_names.len();
    let h = parsed.header.as_ref()?;
    let idx: Vec<usize> = h.iter().map(|x| text_names.iter().position(|t| t == x)).collect::<Option<Vec<_>>>()?;
    let mut t = TT::konst(n, false);
    let mut f = TT::konst(n, false);
    for r in &parsed.rows {
        let mut c = TT::konst(n, true);
        for (k, cell) in r.cells.iter().enumerate() {
            match cell {
                Cell::True => c = c.and(&TT::var(n, idx[k])),
                Cell::False => c = c.and(&TT::var(n, idx[k]).not()),
                Cell::Any => {}
            }
        }
        if r.result {
            t = t.or(&c);
        } else {
            f = f.or(&c);
        }
    }
    Some((t, f))
}

pub fn execute_table(p: &TablePlan) -> RunOutcome {
    let mut out = RunOutcome::default();
    let mut stats = Stats::new();
    let mut vs: Vec<Violation> = Vec::new();
    out.plan_digest = digest_bytes(&serde_json::to_vec(p).expect("plan serialises"));
    let prop = p.property.as_str();
    let model = match model_of(p) {
        Ok(m) => m,
        Err(e) => {
            out.unjudged = Some(format!("reference model: {e}"));
            return out;
        }
    };
    let dir = run_dir("cli");
    let ord_bytes = p.ordering.as_ref().map(|o| o.bytes());
    let text = model.text.as_bytes();
    bump(&mut stats, &format!("probe.channel.{}", p.channel.name()));
    bump(&mut stats, &format!("fault.channel-{}", p.channel.name()));
    if let Some(o) = &p.ordering {
        bump(&mut stats, &format!("probe.ordering.{}", o.kind));
        bump(&mut stats, "fault.ordering-file");
    }
    bump(&mut stats, &format!("probe.opts.t{}v{}m{}r{}b{}f{}", p.t as u8, p.v as u8, p.m as u8, p.r as u8, p.b.map_or("-".to_string(), |n| n.to_string()), p.filter));
    if p.wide.is_some() {
        bump(&mut stats, "probe.wide_formula");
    }
    if model.fix_rounds >= 4 {
        bump(&mut stats, "probe.fixed-point-needing-4-or-more-rounds");
    }
    if p.straddle.is_some() && text.len() > 8000 {
        bump(&mut stats, "fault.buffer-boundary-inside-utf8-char");
    }

    let base = run_rsbdd(
        &dir,
        &Invocation {
            text,
            channel: &p.channel,
            args: base_args(p, p.b),
            ordering: ord_bytes.as_deref(),
            style: 0,
        },
    );
    out.steps = 1;
    let mut trace = vec![base.status.unwrap_or(-1) as u64, digest_bytes(&base.stdout)];
    out.state_digests.push(digest_bytes(&base.stdout));

    if base.status == Some(97) {
        out.unjudged = Some("tick budget exhausted in the child process".into());
    } else if base.signal || base.status == Some(101) {
        vs.push(viol(prop, "T1", &format!("panic@{}", panic_site(&base.stderr)), format!("rsbdd panicked on `{}` ({}): {}", model.text, p.channel.name(), String::from_utf8_lossy(&base.stderr).lines().rev().take(3).collect::<Vec<_>>().join(" | "))));
    } else if base.status != Some(0) {
        vs.push(viol(prop, "T1", "rejected", format!("rsbdd exits {:?} on the generated text `{}`: {}", base.status, model.text, String::from_utf8_lossy(&base.stderr).lines().last().unwrap_or(""))));
    } else {
        let stdout = String::from_utf8_lossy(&base.stdout).to_string();
        match parse_stdout(&stdout, p.r, p.t, p.v) {
            Err(e) => vs.push(viol(prop, "T1", "format", format!("stdout does not have the expected layout: {e}"))),
            Ok(parsed) => {
                let order = variable_order(p.ordering.as_ref(), &model.text_names);
                if p.r {
                    // -r prints the formula's variables in variable order
                    let want: Vec<String> = order.iter().filter(|n| model.text_names.contains(n)).cloned().collect();
                    let listed = p.ordering.as_ref().map(|o| o.names());
                    if !crate::model::table::order_acceptable(&parsed.ordering, &want, listed.as_ref()) {
                        let (pr, or) = if prop == "C11" { ("C11", "O1") } else { (prop, "T1") };
                        vs.push(viol(pr, or, "export-ordering", format!("-r printed {:?}, expected {:?}", parsed.ordering, want)));
                    }
                }
                if p.blowup.is_some() {
                    bump(&mut stats, "probe.blowup_family");
                    bump(&mut stats, "fault.table-growth");
                    out.nontrivial = true;
                } else if p.ref_prefix.is_some() {
                    bump(&mut stats, "probe.reference_family");
                    out.nontrivial = true;
                } else if let Some(w) = &p.wide {
                    judge_wide(p, w, &parsed, &mut vs);
                } else if let Some(func) = &model.func {
                    let header: Vec<String> = order.iter().filter(|n| model.free.contains(n)).cloned().collect();
                    let e = Expect {
                        header,
                        index: model.text_names.iter().enumerate().map(|(i, n)| (n.as_str(), i)).collect::<BTreeMap<_, _>>(),
                        func,
                        listed: p.ordering.as_ref().map(|o| o.names()),
                    };
                    if func.is_true() || func.is_false() {
                        bump(&mut stats, "probe.constant_function");
                    } else {
                        out.nontrivial = true;
                    }
                    if p.t {
                        if let Err((o, d)) = judge_table(&parsed, &e, p.filter, p.m) {
                            let (pr, or) = if prop == "C11" { ("C11".to_string(), "O1".to_string()) } else { (prop.to_string(), o.clone()) };
                            let site = match &p.ordering {
                                Some(os) if prop == "C11" => format!("{o}/{}", os.kind.split('+').next().unwrap_or("")),
                                _ => o.clone(),
                            };
                            vs.push(viol(&pr, &or, &site, format!("`{}` {:?}: {d}", model.text, base_args(p, p.b))));
                        }
                    }
                    if p.v && vs.is_empty() {
                        if let Err((o, d)) = judge_vars(&parsed, &e, p.m) {
                            vs.push(viol(prop, &o, "vars", format!("`{}` {:?}: {d}", model.text, base_args(p, p.b))));
                        }
                    }
                }

                // T7 / T8: variants must print byte-identical stdout
                if vs.is_empty() {
                    for var in &p.variants {
                        let (ch, b, oracle, what, style) = match var {
                            Variant::Channel(c) => (c.clone(), p.b, "T7", format!("channel {}", c.name()), 0u8),
                            Variant::Repeat(n) => (p.channel.clone(), Some(*n), "T8", format!("-b {n}"), 0u8),
                            Variant::Style(st) => (p.channel.clone(), p.b, if prop == "C11" { "O5" } else { "T7" }, format!("argument style {st} (bit 0 = relative paths, bit 1 = @argfile, bit 2 = reversed argument order, bit 3 = ordering read through a pipe, bit 4 = started in a removed working directory)"), *st),
                        };
                        let r = run_rsbdd(
                            &dir,
                            &Invocation {
                                text,
                                channel: &ch,
                                args: base_args(p, b),
                                ordering: ord_bytes.as_deref(),
                                style,
                            },
                        );
                        out.steps += 1;
                        match var {
                            Variant::Channel(c) => bump(&mut stats, &format!("fault.channel-{}", c.name())),
                            Variant::Repeat(_) => bump(&mut stats, "fault.repeat"),
                            Variant::Style(_) => bump(&mut stats, "fault.argument-style"),
                        }
                        trace.push(digest_bytes(&r.stdout));
                        if r.status == Some(97) {
                            continue;
                        }
                        // an answer must be the same answer; a tool that refuses to read an ordering from a
                        // pipe, or to start in a removed directory, with a message reports an error
                        let env_variant = matches!(var, Variant::Style(st) if st & 24 != 0);
                        let refused = !r.signal && !matches!(r.status, Some(0) | Some(101) | None);
                        if env_variant && refused && base.status == Some(0) {
                            bump(&mut stats, "probe.environment-variant-refused");
                            continue;
                        }
                        if r.status != base.status || r.stdout != base.stdout {
                            vs.push(viol(
                                prop,
                                oracle,
                                var_site(var),
                                format!("`{}`: stdout / exit status under {what} differs from the base run ({}, -b {:?}): exit {:?} vs {:?}", model.text, p.channel.name(), p.b, r.status, base.status),
                            ));
                            break;
                        }
                    }
                }

                // C11-O2: same function by name without the ordering file
                if vs.is_empty() && p.compare_default_order && p.ordering.is_some() && p.t && !p.m && p.wide.is_none() {
                    let r = run_rsbdd(
                        &dir,
                        &Invocation {
                            text,
                            channel: &p.channel,
                            args: base_args(p, p.b),
                            ordering: None,
                            style: 0,
                        },
                    );
                    out.steps += 1;
                    if r.status == Some(0) {
                        if let Ok(pd) = parse_stdout(&String::from_utf8_lossy(&r.stdout), p.r, p.t, p.v) {
                            let a = function_by_name(&parsed, &model.text_names);
                            let b = function_by_name(&pd, &model.text_names);
                            let mut ha = parsed.header.clone().unwrap_or_default();
                            let mut hb = pd.header.clone().unwrap_or_default();
                            ha.sort();
                            hb.sort();
                            if a != b || ha != hb {
                                let kind = p.ordering.as_ref().map(|o| o.kind.clone()).unwrap_or_default();
                                vs.push(viol("C11", "O2", kind.split('+').next().unwrap_or(""), format!("`{}`: the table under ordering {:?} denotes a different function (by variable name) than under the default order", model.text, p.ordering.as_ref().map(|o| o.names()))));
                            }
                        }
                    } else if r.status != Some(97) {
                        vs.push(viol("C11", "O2", "default-order-run", format!("`{}` without -o exits {:?}", model.text, r.status)));
                    }
                }

                // C11-O3: -r -> file -> -o round trip reproduces the identical table
                if vs.is_empty() && p.round_trip && p.t {
                    let mut a_args = base_args(p, p.b);
                    if !p.r {
                        a_args.push("-r".into());
                    }
                    let a = run_rsbdd(
                        &dir,
                        &Invocation {
                            text,
                            channel: &p.channel,
                            args: a_args.clone(),
                            ordering: ord_bytes.as_deref(),
                            style: 0,
                        },
                    );
                    out.steps += 1;
                    if a.status == Some(0) {
                        if let Ok(pa) = parse_stdout(&String::from_utf8_lossy(&a.stdout), true, p.t, p.v) {
                            let file = pa.ordering.join("\n");
                            let b = run_rsbdd(
                                &dir,
                                &Invocation {
                                    text,
                                    channel: &p.channel,
                                    args: a_args,
                                    ordering: Some(file.as_bytes()),
                                    style: 0,
                                },
                            );
                            out.steps += 1;
                            bump(&mut stats, "fault.round-trip");
                            if b.status != Some(0) && b.status != Some(97) {
                                vs.push(viol("C11", "O3", "round-trip", format!("`{}`: feeding the exported order back with -o exits {:?}", model.text, b.status)));
                            } else if b.status == Some(0) && b.stdout != a.stdout {
                                vs.push(viol("C11", "O3", "round-trip", format!("`{}`: exporting the order with -r and feeding it back with -o does not reproduce the identical output", model.text)));
                            }
                        }
                    }
                }
            }
        }
    }

    // C11-O4: API ordering with distinct, possibly non-contiguous ids (in process)
    if vs.is_empty() && prop == "C11" {
        if let (Some(ids), Some(func)) = (&p.api_ids, &model.func) {
            api_ordering_check(p, &model, ids, func, &mut vs, &mut stats);
        }
    }

    let _ = std::fs::remove_dir_all(&dir);
    trace.push(vs.len() as u64);
    out.trace_digest = mix(&trace);
    out.violations = vs;
    out.stats = stats;
    out
}

fn var_site(v: &Variant) -> &'static str {
    match v {
        Variant::Channel(Channel::Evaluate) => "evaluate",
        Variant::Channel(Channel::File) => "file",
        Variant::Channel(Channel::StdinFile) => "stdin-file",
        Variant::Channel(Channel::StdinPipe(_)) => "stdin-pipe",
        Variant::Repeat(_) => "repeat",
        Variant::Style(_) => "argument-style",
    }
}

fn api_ordering_check(p: &TablePlan, model: &Model, entries: &[(String, usize)], func: &TT, vs: &mut Vec<Violation>, stats: &mut Stats) {
    use rsbdd::parser::ParsedFormula;
    use rsbdd::NamedSymbol;
    let _ = p;
    let names = &model.text_names;
    let ordering: Vec<NamedSymbol> = entries
        .iter()
        .map(|(n, id)| NamedSymbol {
            name: Rc::new(n.clone()),
            id: *id,
        })
        .collect();
    // ids the variables must end up with: listed names keep theirs, the others follow the largest
    // listed id in order of first appearance in the text
    let mut next = entries.iter().map(|(_, id)| id + 1).max().unwrap_or(0);
    let mut id_of: BTreeMap<String, usize> = BTreeMap::new();
    for n in names {
        match entries.iter().find(|(m, _)| m == n) {
            Some((_, id)) => {
                id_of.insert(n.clone(), *id);
            }
            None => {
                id_of.insert(n.clone(), next);
                next += 1;
            }
        }
    }
    bump(stats, "fault.api-ordering-with-gaps");
    if entries.len() < names.len() {
        bump(stats, "probe.api.subset_ordering");
    }
    if entries.last().map(|(_, id)| *id) != entries.iter().map(|(_, id)| *id).max() {
        bump(stats, "probe.api.last_entry_not_largest_id");
    }
    let text = model.text.clone();
    rsbdd::verif_hooks::set_budget(Some(1 << 20));
    let r = catch(|| {
        let mut rd = std::io::BufReader::new(text.as_bytes());
        let pf = ParsedFormula::new(&mut rd, Some(ordering.clone()))?;
        let d = pf.eval();
        // free_vars[to_free_index(x)] == x for every free x
        for v in &pf.free_vars {
            let i = pf.to_free_index(v);
            if pf.free_vars.get(i).map(|x| x.name.as_ref()) != Some(v.name.as_ref()) {
                return Ok::<_, std::io::Error>(Err(format!("free_vars[to_free_index({})] is not {}", v.name, v.name)));
            }
        }
        let vars: Vec<(String, usize)> = pf.vars.iter().map(|v| (v.name.as_ref().clone(), v.id)).collect();
        let free: Vec<String> = pf.free_vars.iter().map(|v| v.name.as_ref().clone()).collect();
        // function by name
        let n = names.len();
        let mut tt = TT::konst(n, false);
        for a in 0..(1usize << n) {
            let mut node = Rc::clone(&d);
            loop {
                let next = match node.as_ref() {
                    rsbdd::bdd::BDD::True => {
                        tt.set(a, true);
                        break;
                    }
                    rsbdd::bdd::BDD::False => break,
                    rsbdd::bdd::BDD::Choice(t, s, f) => {
                        let Some(i) = names.iter().position(|x| x == s.name.as_ref()) else {
                            return Ok(Err(format!("result tests unknown variable {}", s.name)));
                        };
                        if (a >> i) & 1 == 1 {
                            Rc::clone(t)
                        } else {
                            Rc::clone(f)
                        }
                    }
                };
                node = next;
            }
        }
        Ok(Ok((tt, free, vars)))
    });
    rsbdd::verif_hooks::set_budget(None);
    match r {
        Caught::Ok(Ok(Ok((tt, free, vars)))) => {
            if tt != *func {
                vs.push(viol("C11", "O4", "function", format!("`{}` under the API ordering {:?} denotes a different function by name", model.text, entries)));
            }
            // which ids the variables the ordering does not list get is the library's business (C11
            // fixes the listed ones): they must be distinct from every other id, `vars` must hold
            // every name of the text exactly once, listed names with their listed ids, in id order,
            // and `free_vars` must be the free names in that same id order
            let id_now: BTreeMap<String, usize> = vars.iter().map(|(n, i)| (n.clone(), *i)).collect();
            let mut want_free = model.free.clone();
            want_free.sort_by_key(|n| id_now.get(n).copied().unwrap_or(usize::MAX));
            if free != want_free {
                vs.push(viol("C11", "O4", "free_vars", format!("`{}` under the API ordering {:?}: free_vars {:?}, expected {:?} (id order)", model.text, entries, free, want_free)));
            }
            let mut all: Vec<(String, usize)> = names.iter().map(|n| (n.clone(), id_of[n])).collect();
            all.sort_by_key(|(_, id)| *id);
            let once = names.iter().all(|n| vars.iter().filter(|(m, _)| m == n).count() == 1) && vars.iter().all(|(m, _)| names.contains(m) || entries.iter().any(|(e, _)| e == m));
            let listed_kept = vars.iter().all(|(m, i)| entries.iter().find(|(e, _)| e == m).is_none_or(|(_, id)| id == i));
            let distinct_sorted = vars.windows(2).all(|w| w[0].1 < w[1].1);
            if !(once && listed_kept && distinct_sorted) {
                vs.push(viol("C11", "O4", "vars", format!("`{}` under the API ordering {:?}: vars {:?}, expected each name once in id order with listed ids kept {:?}", model.text, entries, vars, all)));
            }
        }
        Caught::Ok(Ok(Err(e))) => vs.push(viol("C11", "O4", "tables", format!("`{}` with API ordering {:?}: {e}", model.text, entries))),
        Caught::Ok(Err(_)) => bump(stats, "probe.api.rejected"),
        Caught::Panic(m, l) => vs.push(viol("C11", "O4", &format!("panic@{l}"), format!("`{}` with API ordering {:?} panicked: {m} @ {l}", model.text, entries))),
        _ => {}
    }
}

pub fn minimise_table(plan: &TablePlan, v: &Violation) -> (TablePlan, Violation) {
    let same = |p: &TablePlan| -> Option<Violation> {
        execute_table(p).violations.into_iter().find(|x| x.property == v.property && x.oracle == v.oracle)
    };
    let mut best = plan.clone();
    let mut best_v = v.clone();
    let mut budget = 250usize;
    let attempt = |cand: TablePlan, best: &mut TablePlan, best_v: &mut Violation, budget: &mut usize| -> bool {
        if *budget == 0 || cand == *best {
            return false;
        }
        *budget -= 1;
        if let Some(nv) = same(&cand) {
            *best = cand;
            *best_v = nv;
            true
        } else {
            false
        }
    };
    // options first
    for k in 0..14 {
        let mut c = best.clone();
        match k {
            0 => c.noise = 0,
            1 => c.variants.clear(),
            2 => c.round_trip = false,
            3 => c.compare_default_order = false,
            4 => c.api_ids = None,
            12 => c.straddle = None,
            13 => c.ref_prefix = None,
            5 => c.ordering = None,
            6 => c.b = None,
            7 => c.r = false,
            8 => c.m = false,
            9 => c.v = false,
            10 => {
                c.filter = 0;
                c.filter_spelling = "any".into();
            }
            11 => c.channel = Channel::Evaluate,
            _ => {}
        }
        attempt(c, &mut best, &mut best_v, &mut budget);
    }
    while best.variants.len() > 1 {
        let mut c = best.clone();
        c.variants.remove(0);
        if !attempt(c, &mut best, &mut best_v, &mut budget) {
            let mut c = best.clone();
            c.variants.pop();
            if !attempt(c, &mut best, &mut best_v, &mut budget) {
                break;
            }
        }
    }
    // formula
    loop {
        let Some(f) = best.formula.clone() else { break };
        let mut improved = false;
        for cand in fast::shrink_candidates(&f) {
            if budget == 0 {
                break;
            }
            let mut c = best.clone();
            c.formula = Some(cand);

            if attempt(c, &mut best, &mut best_v, &mut budget) {
                improved = true;
                break;
            }
        }
        if !improved || budget == 0 {
            break;
        }
    }
    // wide: fewer variables
    while let Some(w) = best.wide.clone() {
        if w.positive.len() <= 1 {
            break;
        }
        let mut c = best.clone();
        let mut w2 = w.clone();
        w2.positive.pop();
        w2.and_after.pop();
        c.wide = Some(w2);
        if !attempt(c, &mut best, &mut best_v, &mut budget) {
            break;
        }
    }
    // ordering tokens
    if let Some(o) = best.ordering.clone() {
        for i in (0..o.tokens.len()).rev() {
            let mut c = best.clone();
            if let Some(oo) = &mut c.ordering {
                if i < oo.tokens.len() {
                    oo.tokens.remove(i);
                }
            }
            attempt(c, &mut best, &mut best_v, &mut budget);
        }
    }
    (best, best_v)
}

#[allow(dead_code)]
pub fn unused_path(_: &PathBuf) {}

// ---------------------------------------------------------------------------------------------
// C12 at process level: arbitrary bytes x option sets x file-system faults; exit status oracle
// ---------------------------------------------------------------------------------------------

use crate::inputs::{gen_stored_formula, gen_stored_ordering, nesting_bound, StoredInput, NESTING_BOUND};

#[derive(Clone, Debug, PartialEq, Eq, Serialize, Deserialize)]
pub enum FsFault {
    InputMissing,
    InputIsDir,
    OrderingMissing,
    OrderingIsDir,
    DotDirMissing,
    DotFull,
    TreeDirMissing,
    TreeFull,
    /// the output path has no final file name component (`..`, `.`, `sub/..`, `/`): always a directory
    DotNoFileName,
    TreeNoFileName,
}

#[derive(Clone, Debug, PartialEq, Eq, Serialize, Deserialize)]
pub struct RobustPlan {
    pub formula: StoredInput,
    pub ordering: Option<StoredInput>,
    pub channel: Channel,
    pub t: bool,
    pub v: bool,
    pub m: bool,
    pub r: bool,
    pub b: Option<usize>,
    pub filter: Option<String>,
    pub retain: Option<String>,
    pub dot: bool,
    pub parsetree: bool,
    pub fs_fault: Option<FsFault>,
    /// `-g` (plot the run times through gnuplot): 0 = not given; 1 = given, no gnuplot on PATH;
    /// 2 = a stand-in gnuplot that reads its input; 3 = one that exits at once without reading
    /// (the tool writes into a closed pipe); 4 = one that reads and exits with status 3
    #[serde(default)]
    pub plot: u8,
}

pub fn gen_robust_plan(rng: &mut Prng) -> RobustPlan {
    let mut formula = gen_stored_formula(rng);
    let blow = rng.chance(1, 40);
    if blow {
        // environment-size dimension: an evaluation that interns thousands of nodes and ends in a constant
        let n = rng.range(9, 13);
        let chain = (0..n).map(|i| format!("(a{i} <=> b{i})")).collect::<Vec<_>>().join(" & ");
        let head: String = (0..n).map(|i| format!("a{i} ")).collect();
        formula = StoredInput {
            base_kind: "blowup".into(),
            // the leading comment-free list fixes the variable order: all a's first
            base: format!("{} ( [{}] >= 0 & ( {chain} ) )", if rng.coin() { "false &" } else { "true &" }, head.trim().replace(' ', ", ")).into_bytes(),
            faults: vec![],
        };
    }
    let ordering = if rng.chance(1, 3) {
        let text = String::from_utf8_lossy(&formula.bytes().0).to_string();
        let mut names: Vec<String> = Vec::new();
        for w in text.split(|c: char| !(c.is_alphanumeric() || c == '_' || c == '\'')) {
            if !w.is_empty() && !w.chars().next().is_some_and(|c| c.is_numeric()) && !fast::KEYWORDS.contains(&w) && !names.iter().any(|n| n == w) && names.len() < 12 {
                names.push(w.to_string());
            }
        }
        Some(gen_stored_ordering(rng, &names))
    } else {
        None
    };
    let spell = |rng: &mut Prng| -> String {
        rng.pick(&["any", "Any", "a", "A", "*", "true", "True", "t", "T", "1", "false", "False", "f", "F", "0", "maybe", "", "TRUE", "2"]).to_string()
    };
    let huge_b = !blow && rng.chance(1, 14);
    if huge_b {
        // an absurd repetition count is only paired with a text that cannot parse: with a valid
        // formula the unchanged tool would (rightly) start 2^59 evaluations and a time / memory limit
        // would kill it, which says nothing about the property
        formula = StoredInput {
            base_kind: "invalid-with-huge-b".into(),
            base: rng.pick(&["a &", "(((", "", "[a] =", "& a", "a b", "if a then b"]).as_bytes().to_vec(),
            faults: vec![],
        };
    }
    if !blow && !huge_b && rng.chance(1, 25) {
        // boundary bias on the length of ONE identifier (the table printer pads columns to it)
        let len = *rng.pick(&[254usize, 255, 256, 257, 4095, 4096, 65534, 65535, 65536]);
        let (pre, post) = *rng.pick(&[("", ""), ("", " & b"), ("a | ", ""), ("-", "")]);
        let name_len = len.saturating_sub(pre.len() + post.len()).max(1);
        formula = StoredInput {
            base_kind: "huge-identifier".into(),
            base: format!("{pre}{}{post}", "n".repeat(name_len)).into_bytes(),
            faults: vec![],
        };
    }
    let fs_fault = if rng.chance(1, 5) {
        Some(
            rng.pick(&[
                FsFault::DotNoFileName,
                FsFault::TreeNoFileName,
                FsFault::InputMissing,
                FsFault::InputIsDir,
                FsFault::OrderingMissing,
                FsFault::OrderingIsDir,
                FsFault::DotDirMissing,
                FsFault::DotFull,
                FsFault::TreeDirMissing,
                FsFault::TreeFull,
            ])
            .clone(),
        )
    } else {
        None
    };
    RobustPlan {
        formula,
        ordering,
        channel: gen_channel(rng),
        t: rng.chance(2, 3),
        v: rng.chance(1, 3),
        m: rng.chance(1, 4),
        r: rng.chance(1, 4),
        b: if blow {
            Some(rng.range(2, 3))
        } else if rng.chance(1, 6) {
            Some(rng.range(0, 3))
        } else if huge_b {
            Some(*rng.pick(&[1usize << 31, 1 << 32, 1 << 59, 1 << 60, 1 << 63, usize::MAX, usize::MAX - 1, 1_000_000_000_000_000]))
        } else {
            None
        },
        filter: if rng.coin() { Some(spell(rng)) } else { None },
        retain: if rng.chance(1, 3) { Some(spell(rng)) } else { None },
        dot: rng.chance(1, 3),
        parsetree: rng.chance(1, 4),
        fs_fault,
        plot: if rng.chance(1, 8) { rng.range(1, 4) as u8 } else { 0 },
    }
}

pub fn execute_robust(p: &RobustPlan) -> RunOutcome {
    let mut out = RunOutcome::default();
    let mut stats = Stats::new();
    out.plan_digest = digest_bytes(&serde_json::to_vec(p).expect("plan serialises"));
    let (bytes, fired) = p.formula.bytes();
    for k in &fired {
        bump(&mut stats, &format!("fault.{k}"));
    }
    let judged = nesting_bound(&bytes) <= NESTING_BOUND;
    let dir = run_dir("rob");
    // --evaluate needs an argv-representable text
    let mut channel = p.channel.clone();
    if channel == Channel::Evaluate && (std::str::from_utf8(&bytes).is_err() || bytes.contains(&0)) {
        channel = Channel::File;
    }
    let mut args: Vec<String> = Vec::new();
    for (flag, on) in [("-t", p.t), ("-v", p.v), ("-m", p.m), ("-r", p.r)] {
        if on {
            args.push(flag.into());
        }
    }
    if let Some(n) = p.b {
        args.push("-b".into());
        args.push(n.to_string());
    }
    if p.plot > 0 {
        args.push("-g".into());
        if p.b.is_none() {
            // the plot is only drawn for a benchmark run
            args.push("-b".into());
            args.push(((bytes.len() % 3) + 1).to_string());
        }
        bump(&mut stats, &format!("fault.gnuplot-{}", ["", "missing", "reads", "exits-at-once", "fails"][p.plot.min(4) as usize]));
        if p.plot >= 2 {
            use std::os::unix::fs::PermissionsExt;
            let bin = dir.join("bin");
            let _ = std::fs::create_dir_all(&bin);
            let script = match p.plot {
                2 => "#!/bin/sh\ncat >/dev/null\n",
                3 => "#!/bin/sh\nexit 0\n",
                _ => "#!/bin/sh\ncat >/dev/null\nexit 3\n",
            };
            let g = bin.join("gnuplot");
            std::fs::write(&g, script).expect("tmpfs write");
            let _ = std::fs::set_permissions(&g, std::fs::Permissions::from_mode(0o755));
        }
    }
    if let Some(f) = &p.filter {
        args.push(format!("--filter={f}"));
    }
    if let Some(c) = &p.retain {
        args.push(format!("--retain-choices={c}"));
    }
    let fault = p.fs_fault.clone();
    let mut expect_failure = false;
    let mut dot_path = dir.join("out.dot");
    let mut tree_path = dir.join("tree.dot");
    let mut want_dot = p.dot;
    let mut want_tree = p.parsetree;
    match &fault {
        Some(FsFault::DotDirMissing) => {
            dot_path = dir.join("no-such-dir/out.dot");
            want_dot = true;
        }
        Some(FsFault::DotFull) => {
            dot_path = PathBuf::from("/dev/full");
            want_dot = true;
        }
        Some(FsFault::TreeDirMissing) => {
            tree_path = dir.join("no-such-dir/tree.dot");
            want_tree = true;
        }
        Some(FsFault::TreeFull) => {
            tree_path = PathBuf::from("/dev/full");
            want_tree = true;
        }
        Some(FsFault::DotNoFileName) => {
            dot_path = no_file_name_path(&dir, bytes.len());
            want_dot = true;
        }
        Some(FsFault::TreeNoFileName) => {
            tree_path = no_file_name_path(&dir, bytes.len());
            want_tree = true;
        }
        _ => {}
    }
    if want_dot {
        args.push("-d".into());
        args.push(dot_path.to_string_lossy().to_string());
    }
    if want_tree {
        args.push("-p".into());
        args.push(tree_path.to_string_lossy().to_string());
    }
    let ord_bytes = p.ordering.as_ref().map(|o| o.bytes().0);
    let ordering_arg: Option<Vec<u8>> = ord_bytes.clone();
    // input-side file-system faults are staged by hand
    let sp = match &fault {
        Some(FsFault::InputMissing) | Some(FsFault::InputIsDir) => {
            let path = dir.join("missing-input");
            if matches!(fault, Some(FsFault::InputIsDir)) {
                std::fs::create_dir_all(&path).expect("tmpfs mkdir");
            }
            let mut a = vec![path.to_string_lossy().to_string()];
            a.extend(args.iter().cloned());
            expect_failure = true;
            crate::sims::rgsim::spawn("rsbdd", &a, &dir, None, &[("RSBDD_VERIF_BUDGET", CHILD_BUDGET.to_string())])
        }
        Some(FsFault::OrderingMissing) | Some(FsFault::OrderingIsDir) => {
            let path = dir.join("missing-ordering");
            if matches!(fault, Some(FsFault::OrderingIsDir)) {
                std::fs::create_dir_all(&path).expect("tmpfs mkdir");
            }
            let _ = &ordering_arg;
            let mut a = args.clone();
            a.push("-o".into());
            a.push(path.to_string_lossy().to_string());
            expect_failure = true;
            run_rsbdd(
                &dir,
                &Invocation {
                    text: &bytes,
                    channel: &channel,
                    args: a,
                    ordering: None,
                    style: 0,
                },
            )
        }
        _ => run_rsbdd(
            &dir,
            &Invocation {
                text: &bytes,
                channel: &channel,
                args: args.clone(),
                ordering: ordering_arg.as_deref(),
                style: 0,
            },
        ),
    };
    if let Some(f) = &fault {
        bump(&mut stats, &format!("fault.fs-{f:?}").to_lowercase());
    }
    bump(&mut stats, &format!("probe.channel.{}", channel.name()));
    out.steps = 1;
    let mut vs = Vec::new();
    let code = sp.status;
    if code == Some(97) {
        out.unjudged = Some("tick budget exhausted in the child process".into());
    } else if code == Some(101) && provably_non_convergent(&bytes) {
        bump(&mut stats, "probe.panic-on-non-convergent-input");
        out.unjudged = Some("rsbdd panicked on an input whose fixed point provably does not converge (outside C12)".into());
    } else if sp.signal || code == Some(101) || code.is_none() {
        vs.push(viol(
            "C12",
            "P1",
            &panic_site(&sp.stderr),
            format!(
                "rsbdd {:?} on {} input bytes via {} ends with {:?}{}: {}",
                args,
                bytes.len(),
                channel.name(),
                code,
                if sp.signal { " (signal)" } else { "" },
                String::from_utf8_lossy(&sp.stderr).lines().rev().take(3).collect::<Vec<_>>().join(" | ")
            ),
        ));
    } else {
        bump(&mut stats, &format!("probe.exit.{}", code.unwrap_or(-1)));
        // a staged fault that is certain to be hit must be reported: non-zero exit with a message
        let certain = match &fault {
            Some(FsFault::InputMissing) | Some(FsFault::InputIsDir) | Some(FsFault::OrderingMissing) | Some(FsFault::OrderingIsDir) => expect_failure,
            _ => false,
        };
        if certain && (code == Some(0) || sp.stderr.is_empty()) {
            vs.push(viol("C12", "P2", &format!("{:?}", fault.as_ref().expect("fault")), format!("a missing / unreadable input path was not reported: exit {:?}", code)));
        }
        // output-side faults are only reached when parsing succeeded: exit 0 then means a swallowed error
        if matches!(fault, Some(FsFault::DotDirMissing) | Some(FsFault::DotFull) | Some(FsFault::TreeDirMissing) | Some(FsFault::TreeFull) | Some(FsFault::DotNoFileName) | Some(FsFault::TreeNoFileName)) && code == Some(0) {
            // /dev/full accepts an empty write: a diagram export always writes at least the header, so this is an error
            vs.push(viol("C12", "P3", &format!("{:?}", fault.as_ref().expect("fault")), "an output file that cannot be created / written was not reported (exit 0)".into()));
        }
    }
    let _ = std::fs::remove_dir_all(&dir);
    out.nontrivial = !fired.is_empty() || fault.is_some();
    if p.plot == 3 {
        // whether the tool's write into the pipe of a gnuplot that exits at once fails is a race the
        // simulator does not decide: only "panicked or not" is judged and recorded for such a run
        let crashed = sp.signal || code == Some(101) || code.is_none();
        out.trace_digest = mix(&[3, crashed as u64]);
        out.state_digests.push(mix(&[3, crashed as u64]));
    } else {
        out.trace_digest = mix(&[code.unwrap_or(-1) as u64, digest_bytes(&sp.stdout)]);
        out.state_digests.push(mix(&[code.unwrap_or(-1) as u64, digest_bytes(&sp.stdout)]));
    }
    if judged {
        out.violations = vs;
    } else {
        if out.unjudged.is_none() {
            out.unjudged = Some("nesting bound above 200".into());
        }
        if !vs.is_empty() {
            bump(&mut stats, "probe.failure_outside_nesting_bound");
        }
    }
    out.stats = stats;
    out
}

pub fn minimise_robust(plan: &RobustPlan, v: &Violation) -> (RobustPlan, Violation) {
    let same = |p: &RobustPlan| -> Option<Violation> {
        execute_robust(p).violations.into_iter().find(|x| x.oracle == v.oracle && x.site == v.site)
    };
    let mut best = plan.clone();
    let mut best_v = v.clone();
    let mut budget = 300usize;
    {
        let mut c = best.clone();
        c.formula.base = c.formula.bytes().0;
        c.formula.faults.clear();
        if let Some(o) = &mut c.ordering {
            o.base = o.bytes().0;
            o.faults.clear();
        }
        if let Some(nv) = same(&c) {
            best = c;
            best_v = nv;
        }
    }
    for k in 0..11 {
        let mut c = best.clone();
        match k {
            0 => c.ordering = None,
            1 => c.fs_fault = None,
            2 => c.b = None,
            3 => c.filter = None,
            4 => c.retain = None,
            5 => c.dot = false,
            6 => c.parsetree = false,
            7 => c.m = false,
            8 => c.r = false,
            9 => c.v = false,
            _ => c.channel = Channel::File,
        }
        if c != best && budget > 0 {
            budget -= 1;
            if let Some(nv) = same(&c) {
                best = c;
                best_v = nv;
            }
        }
    }
    if best.formula.base.len() > 1 {
        let b2 = best.clone();
        let kept = crate::core::ddmin(best.formula.base.clone(), &mut budget, &mut |cand| {
            let mut c = b2.clone();
            c.formula.base = cand.to_vec();
            same(&c).is_some()
        });
        let mut c = best.clone();
        c.formula.base = kept;
        if let Some(nv) = same(&c) {
            best = c;
            best_v = nv;
        }
    }
    if let Some(o) = best.ordering.clone() {
        if o.base.len() > 1 {
            let b2 = best.clone();
            let kept = crate::core::ddmin(o.base.clone(), &mut budget, &mut |cand| {
                let mut c = b2.clone();
                if let Some(oo) = &mut c.ordering {
                    oo.base = cand.to_vec();
                }
                same(&c).is_some()
            });
            let mut c = best.clone();
            if let Some(oo) = &mut c.ordering {
                oo.base = kept;
            }
            if let Some(nv) = same(&c) {
                best = c;
                best_v = nv;
            }
        }
    }
    (best, best_v)
}

// ---------------------------------------------------------------------------------------------
// C14-D7: the -d / -p files written by the binary
// ---------------------------------------------------------------------------------------------

use crate::model::dotread::parse_bdd_dot;

#[derive(Clone, Debug, PartialEq, Eq, Serialize, Deserialize)]
pub struct ExportPlan {
    pub formula: F,
    pub print_seed: u64,
    pub noise: u8,
    pub channel: Channel,
    pub filter: u8,
    pub filter_spelling: String,
    pub m: bool,
    pub ordering: Option<OrderingSpec>,
    /// -c <spelling>: the run presents the retained-choices diagram; judged only by comparing the
    /// exported file with the table the same invocation prints
    #[serde(default)]
    pub retain: Option<String>,
    /// `fs-stale-output`: the -d and -p files already exist with this many lines of older content
    #[serde(default)]
    pub stale: usize,
}

pub fn gen_export_plan(rng: &mut Prng) -> ExportPlan {
    let cfg = fast::gen_cfg(rng, 6, 5);
    let mut formula = fast::gen_formula(rng, &cfg);
    if rng.chance(1, 3) {
        formula = F::Bin(fast::BinOp::And, Box::new(formula.clone()), Box::new(F::Not(Box::new(F::Not(Box::new(formula))))));
    }
    let names = formula.names_in_text_order();
    let filter = rng.below(3) as u8;
    ExportPlan {
        formula,
        print_seed: rng.next_u64(),
        noise: rng.below(3) as u8,
        channel: gen_channel(rng),
        filter,
        filter_spelling: rng.pick(FILTER_SPELLINGS[filter as usize]).to_string(),
        m: rng.chance(1, 5),
        ordering: if rng.chance(1, 4) { Some(gen_ordering(rng, &names)) } else { None },
        retain: if rng.chance(1, 5) { Some(rng.pick(&["t", "true", "T", "f", "false", "0", "1"]).to_string()) } else { None },
        stale: if rng.chance(1, 3) { rng.range(1, 400) } else { 0 },
    }
}

pub fn execute_export(p: &ExportPlan) -> RunOutcome {
    use rsbdd::parser::ParsedFormula;
    use rsbdd::parser_io::SymbolicParseTree;
    let mut out = RunOutcome::default();
    let mut stats = Stats::new();
    let mut vs = Vec::new();
    out.plan_digest = digest_bytes(&serde_json::to_vec(p).expect("plan serialises"));
    let mut prng = Prng::new(p.print_seed);
    let text = Printer::noisy(&mut prng, p.noise).print(&p.formula);
    let names = p.formula.names_in_text_order();
    let func = match Evaluator::new(&names).and_then(|mut ev| ev.eval(&p.formula)) {
        Ok(f) => f,
        Err(e) => {
            out.unjudged = Some(format!("reference model: {e:?}"));
            return out;
        }
    };
    let dir = run_dir("exp");
    let dot_path = dir.join("out.dot");
    let tree_path = dir.join("tree.dot");
    if p.stale > 0 {
        // an earlier, longer export under the same names
        let old: String = std::iter::once("digraph bdd_graph {\n".to_string())
            .chain((0..p.stale).map(|i| format!("    n_0xdead{i:04x}[label=\"old{i}\"];\n")))
            .chain(std::iter::once("}\n".to_string()))
            .collect();
        std::fs::write(&dot_path, &old).expect("tmpfs write");
        std::fs::write(&tree_path, &old).expect("tmpfs write");
        bump(&mut stats, "fault.fs-stale-output");
    }
    let mut args = vec![
        "-d".to_string(),
        dot_path.to_string_lossy().to_string(),
        "-p".to_string(),
        tree_path.to_string_lossy().to_string(),
        "-f".to_string(),
        p.filter_spelling.clone(),
        "-t".to_string(),
    ];
    if p.m {
        args.push("-m".into());
    }
    if let Some(c) = &p.retain {
        args.push("-c".into());
        args.push(c.clone());
    }
    let ord = p.ordering.as_ref().map(|o| o.bytes());
    let sp = run_rsbdd(
        &dir,
        &Invocation {
            text: text.as_bytes(),
            channel: &p.channel,
            args,
            ordering: ord.as_deref(),
            style: 0,
        },
    );
    out.steps = 1;
    bump(&mut stats, &format!("fault.channel-{}", p.channel.name()));
    if sp.status == Some(97) {
        out.unjudged = Some("tick budget exhausted in the child process".into());
    } else if sp.status != Some(0) {
        vs.push(viol("C14", "D7", "exit", format!("rsbdd -d -p on `{text}` exits {:?}: {}", sp.status, String::from_utf8_lossy(&sp.stderr).lines().last().unwrap_or(""))));
    } else {
        // the diagram file
        let dot = std::fs::read(&dot_path).unwrap_or_default();
        match parse_bdd_dot(&String::from_utf8_lossy(&dot)) {
            Err(e) => vs.push(viol("C14", "D7", "dot-syntax", format!("-d file of `{text}` does not read back: {e}"))),
            Ok(g) => {
                if let Err(e) = g.well_formed() {
                    vs.push(viol("C14", "D7", "dot-declarations", e));
                } else {
                    let dropped = match p.filter {
                        1 => Some(("n_false", false)),
                        2 => Some(("n_true", true)),
                        _ => None,
                    };
                    if let Some((d, _)) = dropped {
                        if g.nodes.iter().any(|(id, _)| id == d) {
                            vs.push(viol("C14", "D7", "filter", format!("-d with filter {} still declares {d}", p.filter_spelling)));
                        }
                    }
                    let roots = g.roots();
                    let n = names.len();
                    // evaluate; an edge missing because of the filter leads to the dropped leaf
                    let mut got = TT::konst(n, false);
                    let mut ok = true;
                    if g.nodes.is_empty() {
                        // only possible when the result is the dropped leaf itself
                        match dropped {
                            Some((_, val)) => {
                                if val {
                                    got = TT::konst(n, true);
                                }
                            }
                            None => {
                                vs.push(viol("C14", "D7", "empty", "-d file declares no node at all under filter Any".into()));
                                ok = false;
                            }
                        }
                    } else if roots.len() != 1 {
                        vs.push(viol("C14", "D7", "root", format!("-d file has {} nodes without incoming edge", roots.len())));
                        ok = false;
                    } else {
                        'outer: for a in 0..(1usize << n) {
                            let mut cur = roots[0].to_string();
                            loop {
                                if cur == "n_true" {
                                    got.set(a, true);
                                    break;
                                }
                                if cur == "n_false" {
                                    break;
                                }
                                let label = g.label_of(&cur).unwrap_or("");
                                let Some(i) = names.iter().position(|x| x == label) else {
                                    vs.push(viol("C14", "D7", "label", format!("-d file tests {label:?}, not a variable of `{text}`")));
                                    ok = false;
                                    break 'outer;
                                };
                                let want = if (a >> i) & 1 == 1 { "T" } else { "F" };
                                let next: Vec<String> = g.out(&cur).iter().filter(|(l, _)| *l == want).map(|(_, t)| t.to_string()).collect();
                                match (next.len(), dropped) {
                                    (1, _) => cur = next[0].clone(),
                                    (0, Some((_, val))) => {
                                        if val {
                                            got.set(a, true);
                                        }
                                        break;
                                    }
                                    _ => {
                                        vs.push(viol("C14", "D7", "edges", format!("-d file: node {cur} has {} {want}-edges", next.len())));
                                        ok = false;
                                        break 'outer;
                                    }
                                }
                            }
                        }
                    }
                    // D7: the file denotes the diagram the run presents, i.e. the one whose table the
                    // same invocation prints (whatever -m / -c did to it)
                    if ok {
                        if let Ok(pt) = parse_stdout(&String::from_utf8_lossy(&sp.stdout), false, true, false) {
                            if let Some((tu, fu)) = function_by_name(&pt, &names) {
                                let shown = match p.filter {
                                    2 => fu.not(),
                                    _ => tu,
                                };
                                if shown != got {
                                    vs.push(viol(
                                        "C14",
                                        "D7",
                                        "file-vs-table",
                                        format!("`{text}` {:?}: the -d file denotes a different function than the table printed by the same invocation", (p.m, &p.retain, &p.filter_spelling)),
                                    ));
                                }
                            }
                        }
                    }
                    if ok && p.retain.is_none() {
                        if !p.m {
                            if got != func {
                                vs.push(viol("C14", "D7", "function", format!("-d file of `{text}` (filter {}) denotes a different function than the formula", p.filter_spelling)));
                            }
                        } else if !got.le(&func) || got.is_false() != func.is_false() {
                            vs.push(viol("C14", "D7", "model", format!("-d -m file of `{text}` is not a model of the formula")));
                        }
                        if !func.is_true() && !func.is_false() {
                            out.nontrivial = true;
                        }
                    }
                }
            }
        }
        // the syntax-tree file must be what the library exports for the same text (ids are indices)
        let tree = std::fs::read(&tree_path).unwrap_or_default();
        let ordering_syms = p.ordering.as_ref().map(|o| {
            o.names()
                .into_iter()
                .enumerate()
                .map(|(i, n)| rsbdd::NamedSymbol { name: Rc::new(n), id: i })
                .collect::<Vec<_>>()
        });
        let lib = catch(|| {
            let mut rd = std::io::BufReader::new(text.as_bytes());
            let pf = ParsedFormula::new(&mut rd, ordering_syms)?;
            let mut v = Vec::new();
            SymbolicParseTree::new(&pf.bdd).render_dot(&mut v)?;
            Ok::<_, std::io::Error>(v)
        });
        if let Caught::Ok(Ok(v)) = lib {
            if v != tree {
                vs.push(viol("C14", "D7", "tree-file", format!("-p file of `{text}` differs from the library's export of the same text")));
            }
        }
    }
    let _ = std::fs::remove_dir_all(&dir);
    out.trace_digest = mix(&[sp.status.unwrap_or(-1) as u64, vs.len() as u64, digest_bytes(text.as_bytes())]);
    out.state_digests.push(func.digest());
    out.violations = vs;
    out.stats = stats;
    out
}


/// True when the text parses in process (no ordering) and the model's own iteration of one of
/// its fixed points provably cycles: C12 does not speak about such inputs.
fn provably_non_convergent(bytes: &[u8]) -> bool {
    if bytes.len() > 1 << 16 {
        return false;
    }
    let r = catch(|| {
        let mut rd = std::io::BufReader::new(bytes);
        rsbdd::parser::ParsedFormula::new(&mut rd, None).ok().and_then(|pf| crate::model::fromsym::fixed_points_converge(&pf))
    });
    matches!(r, Caught::Ok(Some(false)))
}


/// An output path without a final file name component; which one is a function of the input length.
fn no_file_name_path(dir: &Path, salt: usize) -> PathBuf {
    match salt % 4 {
        0 => PathBuf::from(".."),
        1 => PathBuf::from("."),
        2 => {
            let _ = std::fs::create_dir_all(dir.join("sub"));
            dir.join("sub/..")
        }
        _ => PathBuf::from("/"),
    }
}
