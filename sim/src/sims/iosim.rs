//! iosim — stream-fault simulator on the seams the library already has
//! (`&mut dyn BufRead` for formula / ordering input, `W: Write` for DOT output).
//!
//! C12 (in process): arbitrary / corrupted stored inputs delivered through faulty readers;
//!   every stage (tokenize, parse, inspect, eval under a tick budget, model, retain, table
//!   walk, both DOT exporters into a faulty writer) must return Ok/Err, never panic (P1);
//!   an injected hard read error must surface as Err (P2); an injected hard write error must
//!   surface as Err (P3).
//! C10-T9: a valid formula text delivered through any chunking / EINTR plan, behind any
//!   BufReader capacity or from a real file, yields identical tokens, syntax tree, variable
//!   tables and diagram; a hard error yields Err carrying the injected error.

use std::io::{BufRead, BufReader, Read};
use std::rc::Rc;

use rsbdd::bdd::BDD;
use rsbdd::bdd_io::BDDGraph;
use rsbdd::parser::{ParsedFormula, SymbolicBDD};
use rsbdd::parser_io::SymbolicParseTree;
use rsbdd::{NamedSymbol, TruthTableEntry};
use serde::{Deserialize, Serialize};

use crate::core::{bump, bump_by, catch, Caught, RunOutcome, Stats, Violation};
use crate::faultio::{gen_io_plan, FaultyReader, FaultyWriter, IoFired, IoPlan};
use crate::inputs::{gen_stored_formula, gen_stored_ordering, nesting_bound, StoredInput, NESTING_BOUND};
use crate::model::fast::{self, Printer};
use crate::prng::{digest_bytes, mix, Prng};

pub const SIM_ID: u64 = 2;
const EVAL_BUDGET: u64 = 1 << 17;

#[derive(Clone, Debug, PartialEq, Eq, Serialize, Deserialize)]
pub struct IoSimPlan {
    pub property: String,
    pub formula: StoredInput,
    pub ordering: Option<StoredInput>,
    pub read_plan: IoPlan,
    /// Some(c): BufReader::with_capacity(c, faulty reader); None: the faulty reader is the BufRead
    pub bufreader_cap: Option<usize>,
    /// deliver through a real file on tmpfs instead (T9 only; no injected faults possible there)
    pub via_file: bool,
    pub write_plan: IoPlan,
    pub filter: u8,
    /// `definitions` (C12): non-zero = names referenced as `{name}` get a syntax definition
    /// through `ParsedFormula::define` before evaluation (seed of their choice), and the formula is
    /// evaluated twice
    #[serde(default)]
    pub definitions: u64,
}

pub fn gen_plan(rng: &mut Prng, property: &str) -> IoSimPlan {
    let formula = if property == "C10" {
        // T9: valid texts only
        let cfg = fast::gen_cfg(rng, 6, 5);
        let f = fast::gen_formula(rng, &cfg);
        let noise = rng.below(3) as u8;
        let mut p2 = Prng::new(rng.next_u64());
        StoredInput {
            base_kind: "generated".into(),
            base: Printer::noisy(&mut p2, noise).print(&f).into_bytes(),
            faults: vec![],
        }
    } else {
        gen_stored_formula(rng)
    };
    let mut formula = formula;
    let definitions = if property == "C12" && rng.chance(1, 4) { rng.next_u64() | 1 } else { 0 };
    if definitions != 0 && formula.base_kind == "generated" {
        formula.base = splice_references(&formula.base, rng);
        formula.base_kind = "generated+references".into();
    }
    let ordering = if rng.chance(1, 3) {
        // names the ordering file talks about: words of the formula text (own light scan)
        let text = String::from_utf8_lossy(&formula.bytes().0).to_string();
        let mut names: Vec<String> = Vec::new();
        for w in text.split(|c: char| !(c.is_alphanumeric() || c == '_' || c == '\'')) {
            if !w.is_empty()
                && !w.chars().next().is_some_and(|c| c.is_numeric())
                && !fast::KEYWORDS.contains(&w)
                && !names.iter().any(|n| n == w)
                && names.len() < 12
            {
                names.push(w.to_string());
            }
        }
        let mut o = gen_stored_ordering(rng, &names);
        if property == "C10" {
            o.faults.clear();
        }
        Some(o)
    } else {
        None
    };
    let len = formula.base.len();
    let allow_hard = true;
    IoSimPlan {
        property: property.to_string(),
        formula,
        ordering,
        read_plan: gen_io_plan(rng, len, allow_hard, false),
        bufreader_cap: if rng.coin() { Some(*rng.pick(&[1usize, 2, 3, 5, 8, 16, 64, 8192])) } else { None },
        via_file: property == "C10" && rng.chance(1, 8),
        write_plan: gen_io_plan(rng, 256, true, true),
        filter: rng.below(3) as u8,
        definitions,
    }
}

/// Turn some occurrences of one or two identifiers of a formula text into references `{name}`
/// (never an occurrence that is followed by `#` or `,`, which would be a binder).
fn splice_references(text: &[u8], rng: &mut Prng) -> Vec<u8> {
    let s = String::from_utf8_lossy(text).to_string();
    let chars: Vec<char> = s.chars().collect();
    let is_id = |c: char| c.is_alphanumeric() || c == '_' || c == '\'';
    let mut words: Vec<(usize, usize)> = Vec::new();
    let mut i = 0;
    let mut in_comment = false;
    while i < chars.len() {
        if chars[i] == '"' {
            in_comment = !in_comment;
            i += 1;
        } else if !in_comment && is_id(chars[i]) && !chars[i].is_numeric() {
            let st = i;
            while i < chars.len() && is_id(chars[i]) {
                i += 1;
            }
            words.push((st, i));
        } else {
            i += 1;
        }
    }
    let word = |w: &(usize, usize)| chars[w.0..w.1].iter().collect::<String>();
    let mut names: Vec<String> = Vec::new();
    for w in &words {
        let n = word(w);
        if !fast::KEYWORDS.contains(&n.as_str()) && !names.contains(&n) {
            names.push(n);
        }
    }
    if names.is_empty() {
        return text.to_vec();
    }
    rng.shuffle(&mut names);
    names.truncate(rng.range(1, 2));
    let mut out = String::new();
    let mut pos = 0;
    for w in &words {
        let n = word(w);
        let next = chars[w.1..].iter().find(|c| !c.is_whitespace());
        if names.contains(&n) && !matches!(next, Some('#') | Some(',')) && rng.chance(2, 3) {
            out.extend(chars[pos..w.0].iter());
            out.push('{');
            out.push_str(&n);
            out.push('}');
            pos = w.1;
        }
    }
    out.extend(chars[pos..].iter());
    out.into_bytes()
}

fn reference_names(s: &SymbolicBDD, out: &mut Vec<String>) {
    match s {
        SymbolicBDD::Reference(n) => {
            if !out.contains(n) {
                out.push(n.clone());
            }
        }
        SymbolicBDD::Not(a) | SymbolicBDD::Quantifier(_, _, a) | SymbolicBDD::FixedPoint(_, _, a) => reference_names(a, out),
        SymbolicBDD::BinaryOp(_, a, b) => {
            reference_names(a, out);
            reference_names(b, out);
        }
        SymbolicBDD::Ite(a, b, c) => {
            reference_names(a, out);
            reference_names(b, out);
            reference_names(c, out);
        }
        SymbolicBDD::CountableConst(_, l, _) => l.iter().for_each(|x| reference_names(x, out)),
        SymbolicBDD::CountableVariable(_, l, r) => l.iter().chain(r.iter()).for_each(|x| reference_names(x, out)),
        _ => {}
    }
}

/// Install a small reference-free syntax definition over the formula's own variables for every
/// referenced name (some stay undefined). Returns how many were defined.
fn install_definitions(pf: &ParsedFormula, seed: u64) -> usize {
    use rsbdd::parser::{BinaryOperator, QuantifierType, ReferenceContents};
    let mut names = Vec::new();
    reference_names(&pf.bdd, &mut names);
    let mut count = 0;
    for n in names {
        let mut rng = Prng::new(seed ^ digest_bytes(n.as_bytes()));
        if rng.chance(1, 5) {
            continue;
        }
        let var = |rng: &mut Prng| -> SymbolicBDD {
            if pf.vars.is_empty() {
                if rng.coin() { SymbolicBDD::True } else { SymbolicBDD::False }
            } else {
                SymbolicBDD::Var(rng.pick(&pf.vars).clone())
            }
        };
        let syntax = match rng.below(7) {
            0 => SymbolicBDD::True,
            1 => SymbolicBDD::False,
            2 => var(&mut rng),
            3 => SymbolicBDD::Not(Box::new(var(&mut rng))),
            4 => SymbolicBDD::BinaryOp(BinaryOperator::And, Box::new(var(&mut rng)), Box::new(var(&mut rng))),
            5 => SymbolicBDD::BinaryOp(BinaryOperator::Or, Box::new(var(&mut rng)), Box::new(SymbolicBDD::Not(Box::new(var(&mut rng))))),
            _ => match pf.vars.first() {
                Some(v) => SymbolicBDD::Quantifier(QuantifierType::Exists, vec![v.clone()], Box::new(SymbolicBDD::BinaryOp(BinaryOperator::Xor, Box::new(SymbolicBDD::Var(v.clone())), Box::new(var(&mut rng))))),
                None => SymbolicBDD::True,
            },
        };
        pf.define(&n, ReferenceContents::Syntax(syntax));
        count += 1;
    }
    count
}

fn tee(filter: u8) -> TruthTableEntry {
    match filter {
        1 => TruthTableEntry::True,
        2 => TruthTableEntry::False,
        _ => TruthTableEntry::Any,
    }
}

fn viol(property: &str, oracle: &str, site: &str, step: usize, detail: String) -> Violation {
    Violation {
        property: property.into(),
        oracle: oracle.into(),
        site: site.into(),
        step,
        detail,
    }
}

fn merge_fired(stats: &mut Stats, prefix: &str, f: &IoFired) {
    bump_by(stats, &format!("fault.{prefix}chunk"), f.chunks);
    bump_by(stats, &format!("fault.{prefix}eintr"), f.eintr);
    bump_by(stats, &format!("fault.{prefix}io-error"), f.fail);
    if prefix == "write-" {
        bump_by(stats, "fault.write-zero", f.zero);
    }
    bump_by(stats, &format!("probe.{prefix}chunk_inside_utf8_char"), f.split_utf8);
    bump_by(stats, &format!("probe.{prefix}chunk_inside_operator"), f.split_operator);
    bump_by(stats, &format!("probe.{prefix}error_before_first_byte"), f.fail_at_start);
    bump_by(stats, &format!("probe.{prefix}error_after_some_bytes"), f.fail_later);
}

/// Run `f` with a reader built according to the plan; returns f's result and what fired.
fn with_reader<T>(
    data: &[u8],
    plan: &IoPlan,
    cap: Option<usize>,
    f: impl FnOnce(&mut dyn BufRead) -> T,
) -> (T, IoFired) {
    match cap {
        None => {
            let mut r = FaultyReader::new(data, plan);
            let out = f(&mut r);
            (out, r.fired)
        }
        Some(c) => {
            let mut br = BufReader::with_capacity(c.max(1), FaultyReader::new(data, plan));
            let out = f(&mut br);
            let fired = br.into_inner().fired;
            (out, fired)
        }
    }
}

/// The walk the CLI performs when printing a table: index every tested variable.
fn table_walk(pf: &ParsedFormula, d: &Rc<BDD<NamedSymbol>>, rows: &mut u64) {
    match d.as_ref() {
        BDD::Choice(l, s, r) => {
            let i = pf.to_free_index(s);
            assert!(i < pf.free_vars.len().max(1) || pf.free_vars.is_empty(), "free index {i} out of range");
            let mut v = vec![TruthTableEntry::Any; pf.free_vars.len()];
            v[i] = TruthTableEntry::True;
            table_walk(pf, r, rows);
            table_walk(pf, l, rows);
        }
        _ => *rows += 1,
    }
}

pub fn execute(plan: &IoSimPlan) -> RunOutcome {
    let mut out = RunOutcome::default();
    out.plan_digest = digest_bytes(&serde_json::to_vec(plan).expect("plan serialises"));
    if plan.property == "C10" {
        exec_t9(plan, &mut out);
    } else {
        exec_c12(plan, &mut out);
    }
    out
}

fn exec_c12(plan: &IoSimPlan, out: &mut RunOutcome) {
    let mut stats = Stats::new();
    let (bytes, fired_storage) = plan.formula.bytes();
    for k in &fired_storage {
        bump(&mut stats, &format!("fault.{k}"));
    }
    bump(&mut stats, &format!("probe.base.{}", plan.formula.base_kind.split(':').next().unwrap_or("?")));
    let depth = nesting_bound(&bytes);
    let judged = depth <= NESTING_BOUND;
    if !judged {
        out.unjudged = Some("nesting bound above 200".into());
    }
    let mut trace: Vec<u64> = vec![digest_bytes(&bytes)];
    let mut violations: Vec<Violation> = Vec::new();
    let panic_v = |stage: &str, m: &str, l: &str, idx: usize| {
        viol(
            "C12",
            "P1",
            l,
            idx,
            format!("{stage} panicked: {m} @ {l} (input {} bytes, build: optimised with overflow checks = dev-profile arithmetic)", bytes.len()),
        )
    };

    // stage 1: tokenize through the faulty reader
    let (r, fired) = with_reader(&bytes, &plan.read_plan, plan.bufreader_cap, |rd| {
        catch(|| SymbolicBDD::tokenize(rd, None))
    });
    merge_fired(&mut stats, "read-", &fired);
    let reached_tokenizer = !matches!(r, Caught::Ok(Err(_))) || fired.fail == 0;
    match &r {
        Caught::Ok(Ok(toks)) => {
            trace.push(toks.len() as u64);
            if fired.fail > 0 {
                violations.push(viol("C12", "P2", "tokenize", 1, "a hard read error was injected but tokenize returned Ok".into()));
            }
        }
        Caught::Ok(Err(_)) => {
            // any Err is a report; the property does not prescribe its wording
            trace.push(0xE);
        }
        Caught::Panic(m, l) => violations.push(panic_v("tokenize", m, l, 1)),
        _ => {}
    }

    // stage 2: ordering file -> variable ordering (as the CLI does it)
    let mut ordering: Option<Vec<NamedSymbol>> = None;
    if let Some(o) = &plan.ordering {
        let (ob, ofired) = o.bytes();
        for k in &ofired {
            bump(&mut stats, &format!("fault.ordering-{k}"));
        }
        bump(&mut stats, "probe.ordering_file_present");
        let clean = IoPlan::clean();
        let (r, _) = with_reader(&ob, &clean, None, |rd| {
            catch(|| SymbolicBDD::tokenize(rd, None).map(|t| ParsedFormula::extract_vars(&t)))
        });
        match r {
            Caught::Ok(Ok(vars)) => {
                trace.push(vars.len() as u64);
                ordering = Some(vars);
            }
            Caught::Ok(Err(_)) => {
                bump(&mut stats, "probe.ordering_file_rejected");
            }
            Caught::Panic(m, l) => violations.push(panic_v("tokenize(ordering file)", &m, &l, 2)),
            _ => {}
        }
    }

    // stage 3: parse (second delivery of the same bytes, same fault plan)
    let ord = ordering.clone();
    let (r, fired2) = with_reader(&bytes, &plan.read_plan, plan.bufreader_cap, |rd| {
        catch(|| ParsedFormula::new(rd, ord))
    });
    let pf = match r {
        Caught::Ok(Ok(pf)) => {
            if fired2.fail > 0 {
                violations.push(viol("C12", "P2", "ParsedFormula::new", 3, "a hard read error was injected but parsing returned Ok".into()));
            }
            bump(&mut stats, "probe.parse.accepted");
            Some(pf)
        }
        Caught::Ok(Err(_)) => {
            bump(&mut stats, "probe.parse.rejected");
            None
        }
        Caught::Panic(m, l) => {
            violations.push(panic_v("ParsedFormula::new", &m, &l, 3));
            None
        }
        _ => None,
    };

    if let Some(pf) = pf {
        trace.push(pf.vars.len() as u64);
        trace.push(pf.free_vars.len() as u64);
        // stage 4: inspect the variable tables
        let r = catch(|| {
            let mut acc = 0usize;
            for v in &pf.free_vars {
                acc += pf.to_free_index(v);
            }
            for i in 0..pf.vars.len() {
                let v = pf.usize2var(i).clone();
                let _ = pf.name2var(v.name.as_str());
                let _ = pf.var_is_free(&pf.bdd, &v);
            }
            acc
        });
        if let Caught::Panic(m, l) = r {
            violations.push(panic_v("to_free_index/usize2var over the formula's own variables", &m, &l, 4));
        }
        // stage 5: eval under a tick budget (non-convergent fixed points are outside the property)
        let mut defined = 0;
        if plan.definitions != 0 {
            match catch(|| install_definitions(&pf, plan.definitions)) {
                Caught::Ok(n) => defined = n,
                Caught::Panic(m, l) => violations.push(panic_v("ParsedFormula::define", &m, &l, 5)),
                _ => {}
            }
            if defined > 0 {
                bump(&mut stats, "fault.definitions");
            }
        }
        rsbdd::verif_hooks::reset();
        rsbdd::verif_hooks::set_budget(Some(EVAL_BUDGET));
        let r = catch(|| {
            let d = pf.eval();
            if defined > 0 {
                // a second evaluation of the same object, as `-b N` does
                let _ = pf.eval();
            }
            d
        });
        rsbdd::verif_hooks::set_budget(None);
        out.ticks += rsbdd::verif_hooks::ticks();
        match r {
            Caught::Ok(d) => {
                bump(&mut stats, "probe.eval.completed");
                // stage 6: what the CLI does with the result
                rsbdd::verif_hooks::set_budget(Some(EVAL_BUDGET));
                let r = catch(|| {
                    let mut rows = 0u64;
                    table_walk(&pf, &d, &mut rows);
                    let m = pf.env.model(Rc::clone(&d));
                    table_walk(&pf, &m, &mut rows);
                    let rt = pf.env.retain_choice_bottom_up(Rc::clone(&d), TruthTableEntry::True);
                    table_walk(&pf, &rt, &mut rows);
                    let rf = pf.env.retain_choice_bottom_up(Rc::clone(&d), TruthTableEntry::False);
                    table_walk(&pf, &rf, &mut rows);
                    rows
                });
                rsbdd::verif_hooks::set_budget(None);
                match r {
                    Caught::Ok(rows) => trace.push(rows),
                    Caught::Panic(m, l) => violations.push(panic_v("model / retain / table walk", &m, &l, 6)),
                    Caught::Budget => bump(&mut stats, "probe.post.budget"),
                    Caught::Cancel => {}
                }
                // stage 7: DOT export of the diagram into a faulty writer
                let mut w = FaultyWriter::new(&plan.write_plan);
                let r = catch(|| BDDGraph::new(&d, tee(plan.filter)).render_dot(&mut w));
                merge_fired(&mut stats, "write-", &w.fired);
                match r {
                    Caught::Ok(Ok(())) => {
                        if w.fired.fail > 0 || w.fired.zero > 0 {
                            violations.push(viol("C12", "P3", "BDDGraph::render_dot", 7, "a hard write error was injected but render_dot returned Ok".into()));
                        }
                        trace.push(digest_len(&w.accepted));
                    }
                    Caught::Ok(Err(_)) => {
                        if w.fired.fail == 0 && w.fired.zero == 0 {
                            violations.push(viol("C12", "P3", "BDDGraph::render_dot", 7, "render_dot failed although no hard write error was injected".into()));
                        }
                    }
                    Caught::Panic(m, l) => violations.push(panic_v("BDDGraph::render_dot", &m, &l, 7)),
                    _ => {}
                }
            }
            Caught::Budget => {
                bump(&mut stats, "probe.eval.budget");
                if out.unjudged.is_none() {
                    out.unjudged = Some("tick budget exhausted during eval (possibly a non-convergent fixed point)".into());
                }
            }
            Caught::Panic(m, l) => {
                // C12 speaks of formulas whose fixed points converge: when the model's own
                // iteration of this very input provably cycles, a panic is outside the property
                if crate::model::fromsym::fixed_points_converge(&pf) == Some(false) {
                    bump(&mut stats, "probe.eval.panic-on-non-convergent-input");
                    if out.unjudged.is_none() {
                        out.unjudged = Some("eval panicked on an input whose fixed point provably does not converge (outside C12)".into());
                    }
                } else {
                    violations.push(panic_v("eval", &m, &l, 5))
                }
            }
            Caught::Cancel => {}
        }
        // stage 8: DOT export of the syntax tree into a faulty writer
        let mut w = FaultyWriter::new(&plan.write_plan);
        let r = catch(|| SymbolicParseTree::new(&pf.bdd).render_dot(&mut w));
        match r {
            Caught::Ok(Ok(())) => {
                if w.fired.fail > 0 || w.fired.zero > 0 {
                    violations.push(viol("C12", "P3", "SymbolicParseTree::render_dot", 8, "a hard write error was injected but render_dot returned Ok".into()));
                }
            }
            Caught::Ok(Err(_)) => {}
            Caught::Panic(m, l) => violations.push(panic_v("SymbolicParseTree::render_dot", &m, &l, 8)),
            _ => {}
        }
    }

    let any_fault = !fired_storage.is_empty() || fired.chunks + fired.eintr + fired.fail > 0;
    out.nontrivial = reached_tokenizer && any_fault;
    out.steps = 8;
    out.trace_digest = mix(&trace);
    out.state_digests.push(mix(&trace));
    if judged {
        out.violations = violations;
    } else if !violations.is_empty() {
        bump(&mut stats, "probe.panic_outside_nesting_bound");
    }
    out.stats = stats;
}

fn digest_len(b: &[u8]) -> u64 {
    // DOT text contains addresses; only its length class is address-free
    b.iter().filter(|c| **c == b'\n').count() as u64
}

#[derive(PartialEq, Eq, Debug, Clone)]
struct Observed {
    tokens: String,
    tree: String,
    vars: Vec<(String, usize)>,
    free_vars: Vec<(String, usize)>,
    raw2free: Vec<Option<usize>>,
}

fn observe(rd: &mut dyn BufRead, rd2: &mut dyn BufRead, ordering: Option<Vec<NamedSymbol>>) -> Result<(Observed, ParsedFormula), std::io::Error> {
    let toks = SymbolicBDD::tokenize(rd, ordering.clone())?;
    let pf = ParsedFormula::new(rd2, ordering)?;
    let nv = |v: &Vec<NamedSymbol>| v.iter().map(|s| (s.name.as_ref().clone(), s.id)).collect::<Vec<_>>();
    Ok((
        Observed {
            tokens: format!("{toks:?}"),
            tree: format!("{:?}", pf.bdd),
            vars: nv(&pf.vars),
            free_vars: nv(&pf.free_vars),
            raw2free: pf.raw2free.clone(),
        },
        pf,
    ))
}

fn exec_t9(plan: &IoSimPlan, out: &mut RunOutcome) {
    let mut stats = Stats::new();
    let (bytes, _) = plan.formula.bytes();
    let ordering: Option<Vec<NamedSymbol>> = plan.ordering.as_ref().and_then(|o| {
        let (ob, _) = o.bytes();
        let mut rd = BufReader::new(ob.as_slice());
        SymbolicBDD::tokenize(&mut rd, None).ok().map(|t| ParsedFormula::extract_vars(&t))
    });
    if ordering.is_some() {
        bump(&mut stats, "probe.ordering_file_present");
    }
    // reference delivery: BufReader over the bytes, as the test-suite does
    let reference = catch(|| {
        let mut a = BufReader::new(bytes.as_slice());
        let mut b = BufReader::new(bytes.as_slice());
        observe(&mut a, &mut b, ordering.clone())
    });
    let (ref_obs, ref_pf) = match reference {
        Caught::Ok(Ok(x)) => x,
        Caught::Ok(Err(_)) => {
            // the generator never relies on rejection; a rejected generated text is not T9's business
            bump(&mut stats, "probe.reference_rejected");
            out.unjudged = Some("reference delivery rejected the text".into());
            out.stats = stats;
            return;
        }
        _ => {
            out.unjudged = Some("reference delivery panicked (C12's business)".into());
            out.stats = stats;
            return;
        }
    };
    rsbdd::verif_hooks::reset();
    rsbdd::verif_hooks::set_budget(Some(EVAL_BUDGET));
    let ref_eval = catch(|| ref_pf.eval());
    rsbdd::verif_hooks::set_budget(None);
    let Caught::Ok(ref_d) = ref_eval else {
        out.unjudged = Some("reference evaluation did not complete".into());
        out.stats = stats;
        return;
    };

    let mut violations = Vec::new();
    let faulty = if plan.via_file {
        bump(&mut stats, "fault.channel-real-file");
        let dir = format!("/dev/shm/rsbdd-dst-{}", std::process::id());
        let _ = std::fs::create_dir_all(&dir);
        let path = format!("{dir}/t9-{:?}.txt", std::thread::current().id());
        std::fs::write(&path, &bytes).expect("tmpfs write");
        let r = catch(|| {
            let mut a = BufReader::new(std::fs::File::open(&path)?);
            let mut b = BufReader::with_capacity(7, std::fs::File::open(&path)?);
            observe(&mut a, &mut b, ordering.clone())
        });
        let _ = std::fs::remove_file(&path);
        (r, IoFired::default())
    } else {
        let mut r1 = FaultyReader::new(&bytes, &plan.read_plan);
        let mut r2 = FaultyReader::new(&bytes, &plan.read_plan);
        let r = match plan.bufreader_cap {
            None => catch(|| observe(&mut r1, &mut r2, ordering.clone())),
            Some(c) => {
                let mut b1 = BufReader::with_capacity(c.max(1), &mut r1);
                let mut b2 = BufReader::with_capacity(c.max(1), &mut r2);
                catch(|| observe(&mut b1, &mut b2, ordering.clone()))
            }
        };
        let mut f = r1.fired.clone();
        f.fail += r2.fired.fail;
        (r, f)
    };
    let (r, fired) = faulty;
    merge_fired(&mut stats, "read-", &fired);
    match r {
        Caught::Ok(Ok((obs, pf))) => {
            if fired.fail > 0 {
                violations.push(viol("C10", "T9", "io-error", 0, "a hard read error was injected but the text was accepted".into()));
            } else if obs != ref_obs {
                let what = if obs.tokens != ref_obs.tokens {
                    "tokens"
                } else if obs.tree != ref_obs.tree {
                    "syntax tree"
                } else if obs.vars != ref_obs.vars {
                    "vars"
                } else if obs.free_vars != ref_obs.free_vars {
                    "free_vars"
                } else {
                    "raw2free"
                };
                violations.push(viol("C10", "T9", what, 0, format!("{what} differ between plain delivery and delivery under the read-fault plan")));
            } else {
                rsbdd::verif_hooks::set_budget(Some(EVAL_BUDGET));
                let e = catch(|| pf.eval());
                rsbdd::verif_hooks::set_budget(None);
                match e {
                    Caught::Ok(d) => {
                        if d != ref_d || d.get_hash() != ref_d.get_hash() {
                            violations.push(viol("C10", "T9", "eval", 0, "diagram differs between plain delivery and delivery under the read-fault plan".into()));
                        }
                    }
                    Caught::Panic(m, l) => violations.push(viol("C10", "T9", "eval", 0, format!("eval panicked only under the fault plan: {m} @ {l}"))),
                    _ => {}
                }
            }
        }
        Caught::Ok(Err(e)) => {
            if fired.fail == 0 {
                violations.push(viol("C10", "T9", "spurious-error", 0, format!("delivery with only transparent faults (chunking / EINTR) was rejected: {e}")));
            }
        }
        Caught::Panic(m, l) => violations.push(viol("C10", "T9", "panic", 0, format!("panicked under the read-fault plan: {m} @ {l}"))),
        _ => {}
    }
    out.ticks += rsbdd::verif_hooks::ticks();
    out.nontrivial = plan.via_file || fired.chunks + fired.eintr + fired.fail > 0;
    out.steps = 3;
    out.trace_digest = mix(&[digest_bytes(ref_obs.tokens.as_bytes()), digest_bytes(ref_obs.tree.as_bytes()), violations.len() as u64]);
    out.state_digests.push(digest_bytes(ref_obs.tree.as_bytes()));
    out.violations = violations;
    out.stats = stats;
}

/// Minimise: fewer storage faults, simpler I/O plan, then ddmin over the input bytes.
pub fn minimise(plan: &IoSimPlan, v: &Violation) -> (IoSimPlan, Violation) {
    let same = |p: &IoSimPlan| -> Option<Violation> {
        execute(p)
            .violations
            .into_iter()
            .find(|x| x.property == v.property && x.oracle == v.oracle && x.site == v.site)
    };
    let mut best = plan.clone();
    let mut best_v = v.clone();
    // bake the storage faults into the base
    {
        let mut p = best.clone();
        p.formula.base = p.formula.bytes().0;
        p.formula.faults.clear();
        if let Some(o) = &mut p.ordering {
            o.base = o.bytes().0;
            o.faults.clear();
        }
        if let Some(nv) = same(&p) {
            best = p;
            best_v = nv;
        }
    }
    let try_plan = |p: IoSimPlan, best: &mut IoSimPlan, best_v: &mut Violation| -> bool {
        if let Some(nv) = same(&p) {
            *best = p;
            *best_v = nv;
            true
        } else {
            false
        }
    };
    let mut p = best.clone();
    p.read_plan = IoPlan::clean();
    try_plan(p, &mut best, &mut best_v);
    let mut p = best.clone();
    p.write_plan = IoPlan::clean();
    try_plan(p, &mut best, &mut best_v);
    let mut p = best.clone();
    p.bufreader_cap = None;
    try_plan(p, &mut best, &mut best_v);
    let mut p = best.clone();
    p.ordering = None;
    try_plan(p, &mut best, &mut best_v);
    let mut p = best.clone();
    p.via_file = false;
    try_plan(p, &mut best, &mut best_v);
    // ddmin over read events
    let mut budget = 1500usize;
    if !best.read_plan.events.is_empty() {
        let ev = best.read_plan.events.clone();
        let b2 = best.clone();
        let kept = crate::core::ddmin(ev, &mut budget, &mut |cand| {
            let mut p = b2.clone();
            p.read_plan.events = cand.to_vec();
            same(&p).is_some()
        });
        let mut p = best.clone();
        p.read_plan.events = kept;
        try_plan(p, &mut best, &mut best_v);
    }
    // ddmin over input bytes
    if best.formula.faults.is_empty() && best.formula.base.len() > 1 {
        let b2 = best.clone();
        let kept = crate::core::ddmin(best.formula.base.clone(), &mut budget, &mut |cand| {
            let mut p = b2.clone();
            p.formula.base = cand.to_vec();
            same(&p).is_some()
        });
        let mut p = best.clone();
        p.formula.base = kept;
        try_plan(p, &mut best, &mut best_v);
    }
    if let Some(o) = best.ordering.clone() {
        if o.faults.is_empty() && o.base.len() > 1 {
            let b2 = best.clone();
            let kept = crate::core::ddmin(o.base.clone(), &mut budget, &mut |cand| {
                let mut p = b2.clone();
                if let Some(oo) = &mut p.ordering {
                    oo.base = cand.to_vec();
                }
                same(&p).is_some()
            });
            let mut p = best.clone();
            if let Some(oo) = &mut p.ordering {
                oo.base = kept;
            }
            try_plan(p, &mut best, &mut best_v);
        }
    }
    (best, best_v)
}

#[allow(dead_code)]
fn _unused(_: &mut dyn Read) {}
