//! Binds rgsim to the `Simulator` interface (C18).

use serde_json::Value;

use super::rgsim::{self, RgPlan};
use crate::core::{prng_for, RunOutcome, Violation};
use crate::Simulator;

pub struct RgSimDriver;

impl RgSimDriver {
    fn plan(&self, seed: u64, run: u64) -> RgPlan {
        let mut rng = prng_for(seed, rgsim::SIM_ID * 1000 + 18, run);
        rgsim::gen_plan(&mut rng)
    }
}

impl Simulator for RgSimDriver {
    fn name(&self) -> &'static str {
        "rgsim"
    }

    fn rule(&self) -> String {
        "one request per run to the real random_graph_gen binary: (V, E, -u, --complete, --dot, -o) with a seeded RNG stream \
         (half feasible-interior, a quarter at the exact maximum, a quarter infeasible or incomplete), or --convert of a small seeded \
         edge list with duplicates / reversed pairs (+ --colors k); every feasible request is also re-run with --dot toggled and every \
         clean run is replayed once; distinct = distinct plan digest; non-trivial = feasible request with 0 < E < max, an infeasible one, or a non-empty --convert"
            .to_string()
    }

    fn components_real(&self) -> Vec<String> {
        vec!["random_graph_gen binary built from /repo's working tree (clap, csv, rand::seq::SliceRandom::shuffle)".into()]
    }

    fn components_stub(&self) -> Vec<String> {
        vec![
            "the generator's RNG (guarded hook: StdRng seeded from RSBDD_VERIF_RNG_SEED replaces thread_rng)".into(),
            "argv, input CSV file, output file, working directory on tmpfs".into(),
        ]
    }

    fn runs(&self, thorough: bool) -> u64 {
        if thorough {
            600_000
        } else {
            20_000
        }
    }

    fn run_one(&self, seed: u64, run: u64) -> RunOutcome {
        rgsim::execute(&self.plan(seed, run))
    }

    fn plan_json(&self, seed: u64, run: u64) -> Value {
        serde_json::to_value(self.plan(seed, run)).expect("plan serialises")
    }

    fn minimise(&self, seed: u64, run: u64, v: &Violation) -> (Value, Violation, usize) {
        let plan = self.plan(seed, run);
        let (p, mv) = rgsim::minimise(&plan, v);
        (serde_json::to_value(p).expect("plan serialises"), mv, 1)
    }

    fn replay(&self, plan: &Value) -> RunOutcome {
        match serde_json::from_value::<RgPlan>(plan.clone()) {
            Ok(p) => rgsim::execute(&p),
            Err(e) => {
                eprintln!("harness error: replay plan does not parse: {e}");
                std::process::exit(2);
            }
        }
    }
}
