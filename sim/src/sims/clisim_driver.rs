//! Binds clisim's table plans to the `Simulator` interface (C10, C11).

use serde_json::Value;

use super::clisim::{self, TablePlan};
use crate::core::{prng_for, RunOutcome, Violation};
use crate::Simulator;

pub struct CliTableDriver {
    property: String,
    thorough: bool,
}

impl CliTableDriver {
    pub fn new(property: &str, thorough: bool) -> Self {
        Self {
            property: property.to_string(),
            thorough,
        }
    }

    fn plan(&self, seed: u64, run: u64) -> TablePlan {
        let mut rng = prng_for(seed, clisim::SIM_ID * 1000 + self.property[1..].parse::<u64>().unwrap_or(0), run);
        clisim::gen_table_plan(&mut rng, &self.property, self.thorough)
    }
}

impl Simulator for CliTableDriver {
    fn name(&self) -> &'static str {
        "clisim"
    }

    fn rule(&self) -> String {
        if self.property == "C11" {
            "one generated formula per run with an ordering file of a seeded kind (identity, permutation, reversed, subset, superset with unused names \
             before/between/after, duplicates, optionally with punctuation/comments/numbers/keywords mixed in), run through the real rsbdd binary; \
             some runs repeat without -o, some do the -r -> file -> -o round trip, some check an API ordering with non-contiguous ids in process; \
             distinct = distinct plan digest; non-trivial = exit 0 with a non-constant function"
                .to_string()
        } else {
            "one generated formula (or a wide read-once chain over up to 80 variables) per run through the real rsbdd binary: seeded input channel \
             (--evaluate, file, redirected stdin, piped stdin in seeded chunks), filter spelling, subset of -t -v -m -r -b N, optional ordering file; \
             plus 1-3 variant invocations (other channel / other -b N) whose stdout must be byte-identical; \
             distinct = distinct plan digest; non-trivial = exit 0 with a non-constant function"
                .to_string()
        }
    }

    fn components_real(&self) -> Vec<String> {
        vec!["rsbdd binary built from /repo's working tree (clap, argfile, wild, the library, the table printers)".into()]
    }

    fn components_stub(&self) -> Vec<String> {
        vec![
            "argv, stdin bytes and their chunking, formula file, ordering file, working directory on tmpfs, environment".into(),
            "tick budget of the child (guarded hook, exit status 97 = unjudged)".into(),
            "NOT controlled: the OS clock read by -b (its value reaches only stderr) and kernel pipe coalescing".into(),
        ]
    }

    fn runs(&self, thorough: bool) -> u64 {
        if thorough {
            400_000
        } else {
            12_000
        }
    }

    fn run_one(&self, seed: u64, run: u64) -> RunOutcome {
        clisim::execute_table(&self.plan(seed, run))
    }

    fn plan_json(&self, seed: u64, run: u64) -> Value {
        serde_json::to_value(self.plan(seed, run)).expect("plan serialises")
    }

    fn minimise(&self, seed: u64, run: u64, v: &Violation) -> (Value, Violation, usize) {
        let plan = self.plan(seed, run);
        let n = plan.formula.as_ref().map(|f| f.size()).unwrap_or(0);
        let (p, mv) = clisim::minimise_table(&plan, v);
        (serde_json::to_value(p).expect("plan serialises"), mv, n)
    }

    fn replay(&self, plan: &Value) -> RunOutcome {
        match serde_json::from_value::<TablePlan>(plan.clone()) {
            Ok(p) => clisim::execute_table(&p),
            Err(e) => {
                eprintln!("harness error: replay plan does not parse: {e}");
                std::process::exit(2);
            }
        }
    }
}

/// C12 at process level.
pub struct CliRobustDriver;

impl CliRobustDriver {
    fn plan(&self, seed: u64, run: u64) -> clisim::RobustPlan {
        let mut rng = prng_for(seed, clisim::SIM_ID * 1000 + 112, run);
        clisim::gen_robust_plan(&mut rng)
    }
}

impl Simulator for CliRobustDriver {
    fn name(&self) -> &'static str {
        "clisim"
    }
    fn rule(&self) -> String {
        "one stored input per run (as in iosim) given to the real rsbdd binary under a seeded option set over -t -v -m -r -b N --filter --retain-choices -d -p -o, \
         a seeded input channel and optionally one file-system fault (input / ordering path missing or a directory, output path in a missing directory or /dev/full); \
         oracle: exit status in {0,1,2}, staged faults reported; distinct = distinct plan digest; non-trivial = a storage or file-system fault actually applied"
            .to_string()
    }
    fn components_real(&self) -> Vec<String> {
        vec!["rsbdd binary built from /repo's working tree".into()]
    }
    fn components_stub(&self) -> Vec<String> {
        vec!["argv, stdin, formula / ordering / output files and their file-system state, tick budget of the child".into()]
    }
    fn runs(&self, thorough: bool) -> u64 {
        if thorough {
            600_000
        } else {
            25_000
        }
    }
    fn run_one(&self, seed: u64, run: u64) -> RunOutcome {
        clisim::execute_robust(&self.plan(seed, run))
    }
    fn plan_json(&self, seed: u64, run: u64) -> Value {
        serde_json::to_value(self.plan(seed, run)).expect("plan serialises")
    }
    fn minimise(&self, seed: u64, run: u64, v: &Violation) -> (Value, Violation, usize) {
        let plan = self.plan(seed, run);
        let n = plan.formula.base.len();
        let (p, mv) = clisim::minimise_robust(&plan, v);
        (serde_json::to_value(p).expect("plan serialises"), mv, n)
    }
    fn replay(&self, plan: &Value) -> RunOutcome {
        match serde_json::from_value::<clisim::RobustPlan>(plan.clone()) {
            Ok(p) => clisim::execute_robust(&p),
            Err(e) => {
                eprintln!("harness error: replay plan does not parse: {e}");
                std::process::exit(2);
            }
        }
    }
}

/// C14-D7: files written by the binary.
pub struct CliExportDriver;

impl CliExportDriver {
    fn plan(&self, seed: u64, run: u64) -> clisim::ExportPlan {
        let mut rng = prng_for(seed, clisim::SIM_ID * 1000 + 114, run);
        clisim::gen_export_plan(&mut rng)
    }
}

impl Simulator for CliExportDriver {
    fn name(&self) -> &'static str {
        "clisim"
    }
    fn rule(&self) -> String {
        "one generated formula per run exported by the real rsbdd binary with -d FILE -p FILE under a seeded filter spelling, channel, optional -m and ordering file; \
         the -d file is read back as a decision graph (edges missing because of the filter lead to the dropped leaf) and compared with the reference evaluator, \
         the -p file must equal the library's export of the same text; distinct = distinct plan digest; non-trivial = exit 0 with a non-constant function"
            .to_string()
    }
    fn components_real(&self) -> Vec<String> {
        vec!["rsbdd binary built from /repo's working tree".into()]
    }
    fn components_stub(&self) -> Vec<String> {
        vec!["argv, stdin, formula / ordering / output files on tmpfs".into()]
    }
    fn runs(&self, thorough: bool) -> u64 {
        if thorough {
            300_000
        } else {
            10_000
        }
    }
    fn run_one(&self, seed: u64, run: u64) -> RunOutcome {
        clisim::execute_export(&self.plan(seed, run))
    }
    fn plan_json(&self, seed: u64, run: u64) -> Value {
        serde_json::to_value(self.plan(seed, run)).expect("plan serialises")
    }
    fn minimise(&self, seed: u64, run: u64, v: &Violation) -> (Value, Violation, usize) {
        // formula shrinking only
        let plan = self.plan(seed, run);
        let n = plan.formula.size();
        let same = |p: &clisim::ExportPlan| clisim::execute_export(p).violations.into_iter().find(|x| x.oracle == v.oracle && x.site == v.site);
        let mut best = plan.clone();
        let mut best_v = v.clone();
        let mut budget = 120usize;
        for k in 0..3 {
            let mut c = best.clone();
            match k {
                0 => c.noise = 0,
                1 => c.ordering = None,
                _ => c.channel = clisim::Channel::Evaluate,
            }
            if let Some(nv) = same(&c) {
                best = c;
                best_v = nv;
            }
        }
        loop {
            let mut improved = false;
            for cand in crate::model::fast::shrink_candidates(&best.formula) {
                if budget == 0 {
                    break;
                }
                budget -= 1;
                let mut c = best.clone();
                c.formula = cand;
                if let Some(nv) = same(&c) {
                    best = c;
                    best_v = nv;
                    improved = true;
                    break;
                }
            }
            if !improved || budget == 0 {
                break;
            }
        }
        (serde_json::to_value(best).expect("plan serialises"), best_v, n)
    }
    fn replay(&self, plan: &Value) -> RunOutcome {
        match serde_json::from_value::<clisim::ExportPlan>(plan.clone()) {
            Ok(p) => clisim::execute_export(&p),
            Err(e) => {
                eprintln!("harness error: replay plan does not parse: {e}");
                std::process::exit(2);
            }
        }
    }
}
