//! envsim — several logical clients share one `Rc<BDDEnv>`; a seeded plan decides
//! which client moves next, with which operation, operands and faults. Oracles are
//! evaluated after every step (DESIGN.md 4.1-4.3): I1-I5 (C13), S1-S5 (C19), K1-K3 (C02).

use std::cell::Cell;
use std::collections::{BTreeMap, BTreeSet, HashSet};
use std::io::BufReader;
use std::rc::Rc;

use rsbdd::bdd::{BDDEnv, BDD};
use rsbdd::parser::ParsedFormula;
use rsbdd::set::{BDDCategorizable, BDDSet};
use rsbdd::{BDDSymbol, NamedSymbol, TruthTableEntry};
use serde::{Deserialize, Serialize};

use crate::core::{bump, bump_by, catch, Caught, RunOutcome, ScriptCancel, Stats, Violation};
use crate::model::canon::{canon64, ordered_reduced, plain_copy, recreate, walk64};
use crate::model::fast::{self, Printer, F};
use crate::model::tt::{low_mask, var64};
use crate::prng::{digest_bytes, mix, Prng};

pub const SIM_ID: u64 = 1;
const MAX_HANDLES: usize = 48;
const STEP_TICK_BUDGET: u64 = 1 << 16;

/// Tick budget of one raw step; a counting operator over a long list gets what the unchanged
/// library's exponential recursion needs.
fn step_budget(op: &Op) -> u64 {
    match op {
        Op::CountN(_, l, _) if l.len() > 12 => 1 << 30,
        _ => STEP_TICK_BUDGET,
    }
}

// ---------------------------------------------------------------------------------------------
// Plan
// ---------------------------------------------------------------------------------------------

#[derive(Clone, Copy, Debug, PartialEq, Eq, Serialize, Deserialize)]
pub enum WorldKind {
    U,
    N,
    /// symbols are a user type whose clone / cmp can be made to panic at a scripted call
    /// (`symbol-op-panic`: an unwinding in the middle of a library operation that the caller
    /// catches, reachable through the public generic `BDDEnv<S: BDDSymbol>` seam)
    F,
}

#[derive(Clone, Copy, Debug, PartialEq, Eq, Serialize, Deserialize)]
pub enum UnKind {
    Not,
    Model,
    Clean,
    Simplify,
    Find,
}

#[derive(Clone, Copy, Debug, PartialEq, Eq, Serialize, Deserialize)]
pub enum BinKind {
    And,
    Or,
    Implies,
    Eq,
    Xor,
    Nor,
    Nand,
}

#[derive(Clone, Copy, Debug, PartialEq, Eq, Serialize, Deserialize)]
pub enum CountKind {
    Aln,
    Amn,
    Exn,
}

#[derive(Clone, Copy, Debug, PartialEq, Eq, Serialize, Deserialize)]
pub enum CmpKind {
    Leq,
    Lt,
    Geq,
    Gt,
    Eq,
}

#[derive(Clone, Copy, Debug, PartialEq, Eq, Serialize, Deserialize)]
pub enum ScriptKind {
    OrG,
    AndG,
    ConstG,
    OrAndGH,
    IteGXH,
    Chain,
}

#[derive(Clone, Debug, PartialEq, Eq, Serialize, Deserialize)]
pub struct Script {
    pub kind: ScriptKind,
    pub g: usize,
    pub h: usize,
    pub chain: Vec<usize>,
    /// `reenter`: number of extra environment operations performed inside each invocation
    pub reenter: u8,
    /// `reenter`: run a nested fp inside the transformer
    pub nested: bool,
    /// `cancel`: panic at this invocation (0-based) ...
    pub cancel_at: Option<u8>,
    /// ... after the inner operations (true) or before them (false)
    pub cancel_late: bool,
    /// the panic is raised from inside the nested fp's transformer (two fp frames unwind)
    #[serde(default)]
    pub cancel_in_nested: bool,
}

#[derive(Clone, Copy, Debug, PartialEq, Eq, Serialize, Deserialize)]
pub enum SetBinKind {
    Union,
    Intersect,
    Complement,
}

#[derive(Clone, Debug, PartialEq, Eq, Serialize, Deserialize)]
pub enum Op {
    Const(bool),
    Var(usize),
    Un(UnKind, usize),
    Bin(BinKind, usize, usize),
    Ite(usize, usize, usize),
    Exists(Vec<usize>, usize),
    All(Vec<usize>, usize),
    ExistsImpl(usize, usize),
    CountN(CountKind, Vec<usize>, i64),
    CountCmp(CmpKind, Vec<usize>, Vec<usize>),
    Fp(usize, Script),
    Infer(usize, usize),
    Retain(usize, u8),
    NodeList(usize),
    GetHash(usize),
    Size,
    Duplicates(usize),
    // fault steps
    DropHandle(usize),
    CloneHandle(usize),
    AllocShift(Vec<u32>),
    FreeShift,
    ForeignFind(u64),
    Redo(usize),
    /// `table-growth`: intern this many seeded functions (and drop them) so that the table grows by thousands of nodes
    Bulk(u64, u16),
    /// `call-count`: this many consecutive cheap calls of one entry point on leaf operands
    /// (kind 0 = exists_impl, 1 = all, 2 = not, 3 = and, 4 = or, 5 = var): nothing to compare, it
    /// only makes the environment's call counters large (2^16 in any tier, 2^32 in the thorough one)
    Spin(u8, u64),
    /// `deep-diagram` (U world): two conjunction chains over this many variables that differ only in
    /// the polarity of the deepest literal, built in the shared environment and in a fresh one
    DeepChain(u16),
    /// a blanked step (left behind by minimisation so that step numbers stay stable)
    Nop,
    // U-world: BDDSet clients
    SetNew,
    SetFromElement(usize),
    SetFromBdd(usize),
    SetToHandle(usize),
    SetInsert(usize, usize),
    SetBin(SetBinKind, usize, usize),
    SetEmpty(usize),
    SetUniverse(usize),
    SetContains(usize, usize),
    SetDrop(usize),
    /// `clone-object`: `BDDSet::clone` (a second set object with the same contents in the same
    /// environment); original and copy are used independently afterwards
    #[serde(alias = "SetClone")]
    SetClone(usize),
    // N-world: formula clients
    Formula(F, u64, u8),
    /// a formula evaluated in the shared environment WITHOUT a common ordering: the parser numbers
    /// its variables by first appearance, so the same id may carry different names in different
    /// formulas (identity is by id; everything is judged by id)
    FormulaOwnOrder(F, u64, u8),
    ReEval(usize),
    Convert(usize),
    /// `cancel` for formula clients: to_free_index of a symbol that is not a free variable of an
    /// earlier formula panics by contract; the client catches it and carries on
    FreeIndexPanic(usize),
}

impl Op {
    pub fn name(&self) -> String {
        match self {
            Op::Const(_) => "mk_const".into(),
            Op::Var(_) => "var".into(),
            Op::Un(k, _) => format!("{k:?}").to_lowercase(),
            Op::Bin(k, _, _) => format!("{k:?}").to_lowercase(),
            Op::Ite(..) => "ite".into(),
            Op::Exists(..) => "exists".into(),
            Op::All(..) => "all".into(),
            Op::ExistsImpl(..) => "exists_impl".into(),
            Op::CountN(k, _, _) => format!("{k:?}").to_lowercase(),
            Op::CountCmp(k, _, _) => format!("count_{k:?}").to_lowercase(),
            Op::Fp(..) => "fp".into(),
            Op::Infer(..) => "infer".into(),
            Op::Retain(..) => "retain_choice_bottom_up".into(),
            Op::NodeList(_) => "node_list".into(),
            Op::GetHash(_) => "get_hash".into(),
            Op::Size => "size".into(),
            Op::Duplicates(_) => "duplicates".into(),
            Op::DropHandle(_) => "drop-handle".into(),
            Op::CloneHandle(_) => "clone-handle".into(),
            Op::AllocShift(_) => "alloc-shift".into(),
            Op::FreeShift => "free-shift".into(),
            Op::ForeignFind(_) => "foreign-find".into(),
            Op::Redo(_) => "redo".into(),
            Op::Bulk(..) => "table-growth".into(),
            Op::Spin(..) => "call-count".into(),
            Op::DeepChain(_) => "deep-diagram".into(),
            Op::Nop => "nop".into(),
            Op::SetNew => "set.with_env".into(),
            Op::SetFromElement(_) => "set.from_element".into(),
            Op::SetFromBdd(_) => "set.from_bdd".into(),
            Op::SetToHandle(_) => "set.bdd".into(),
            Op::SetInsert(..) => "set.insert".into(),
            Op::SetBin(k, _, _) => format!("set.{k:?}").to_lowercase(),
            Op::SetEmpty(_) => "set.empty".into(),
            Op::SetUniverse(_) => "set.universe".into(),
            Op::SetContains(..) => "set.contains".into(),
            Op::SetDrop(_) => "set.drop".into(),
            Op::SetClone(_) => "set.clone".into(),
            Op::Formula(..) => "formula.eval".into(),
            Op::FormulaOwnOrder(..) => "formula.eval(own order)".into(),
            Op::ReEval(_) => "formula.re-eval".into(),
            Op::Convert(_) => "convert".into(),
            Op::FreeIndexPanic(_) => "formula.to_free_index(non-free)".into(),
        }
    }

    fn is_raw(&self) -> bool {
        matches!(
            self,
            Op::Const(_)
                | Op::Var(_)
                | Op::Un(..)
                | Op::Bin(..)
                | Op::Ite(..)
                | Op::Exists(..)
                | Op::All(..)
                | Op::ExistsImpl(..)
                | Op::CountN(..)
                | Op::CountCmp(..)
                | Op::Fp(..)
                | Op::Infer(..)
                | Op::Retain(..)
                | Op::NodeList(_)
                | Op::GetHash(_)
                | Op::Duplicates(_)
        )
    }

    /// Handle selectors of a raw operation, in argument order.
    fn selectors(&self) -> Vec<usize> {
        match self {
            Op::Un(_, a)
            | Op::ExistsImpl(_, a)
            | Op::Infer(a, _)
            | Op::Retain(a, _)
            | Op::NodeList(a)
            | Op::GetHash(a)
            | Op::Duplicates(a)
            | Op::Exists(_, a)
            | Op::All(_, a) => vec![*a],
            Op::Bin(_, a, b) => vec![*a, *b],
            Op::Ite(a, b, c) => vec![*a, *b, *c],
            Op::CountN(_, l, _) => l.clone(),
            Op::CountCmp(_, a, b) => a.iter().chain(b.iter()).copied().collect(),
            Op::Fp(init, s) => {
                let mut v = vec![*init, s.g, s.h];
                v.extend(s.chain.iter().copied());
                v
            }
            _ => vec![],
        }
    }
}

#[derive(Clone, Debug, PartialEq, Eq, Serialize, Deserialize)]
pub struct Step {
    /// `symbol-op-panic` (world F): the k-th clone / comparison of a symbol during this step panics
    #[serde(default)]
    pub sym_fault: Option<u32>,
    /// `cross-env` (C02 only): bit i set = operand i is replaced by a structurally identical twin
    /// that lives in a second environment (bit 7 clear) or in no environment at all (bit 7 set).
    /// 0x10 (C13 / C02): `address-alias` (the first nodes the operation allocates are placed at
    /// addresses that agree in their low 32 bits). 0x20 on a `set.contains` step: `borrow-held` (the client holds a shared borrow of the set's
    /// public cell across the query). Bit 6 alone (0x40, C13): `clone-object` — the operation runs in a `Clone` of the shared
    /// environment taken at that moment (and dropped afterwards) instead of the environment itself
    #[serde(default)]
    pub foreign: u8,
    pub client: u8,
    /// keep the result as a live handle (false = `noise-build`: result is dropped at once)
    pub keep: bool,
    pub op: Op,
}

#[derive(Clone, Debug, PartialEq, Eq, Serialize, Deserialize)]
pub struct EnvPlan {
    pub property: String,
    pub world: WorldKind,
    pub nvars: usize,
    pub names: Vec<String>,
    pub set_bits: usize,
    pub clients: u8,
    /// symbol ids of the variables (strictly increasing, nvars + 2 entries); empty = 0, 1, 2, ..
    /// (`sparse ids`: non-adjacent, large variable indices)
    #[serde(default)]
    pub ids: Vec<usize>,
    /// false: the clients do not keep handles to the two leaves (nothing but the environment itself
    /// and the diagrams derived from them references `True` / `False`)
    #[serde(default = "default_true")]
    pub hold_leaves: bool,
    /// C19, `mixed-widths`: non-zero = every second set of the run has this width instead of
    /// `set_bits` (sets of different widths share the environment; they are never combined)
    #[serde(default)]
    pub set_bits2: usize,
    /// the shared environment is made by `BDDEnv::default()` instead of `BDDEnv::new()`
    #[serde(default)]
    pub env_default: bool,
    pub steps: Vec<Step>,
}

fn default_true() -> bool {
    true
}

// ---------------------------------------------------------------------------------------------
// Plan generation (the only place randomness is consumed)
// ---------------------------------------------------------------------------------------------

pub struct Tier {
    pub max_steps: usize,
    pub max_clients: u8,
    /// the thorough tier affords runs with 2^32 cheap calls
    pub wrap32: bool,
}

fn gen_script(rng: &mut Prng, faults: &FaultCfg) -> Script {
    let kind = *rng.pick(&[
        ScriptKind::OrG,
        ScriptKind::AndG,
        ScriptKind::ConstG,
        ScriptKind::OrAndGH,
        ScriptKind::IteGXH,
        ScriptKind::Chain,
    ]);
    let chain_len = if kind == ScriptKind::Chain { rng.range(1, 4) } else { 0 };
    let reenter = if faults.reenter && rng.chance(faults.rate, 100) {
        rng.range(1, 3) as u8
    } else {
        0
    };
    let nested = faults.reenter && rng.chance(faults.rate, 200);
    let cancel_at = if faults.cancel && rng.chance(faults.rate, 100) {
        Some(rng.below(3) as u8)
    } else {
        None
    };
    Script {
        kind,
        g: rng.below(1 << 16),
        h: rng.below(1 << 16),
        chain: (0..chain_len).map(|_| rng.below(1 << 16)).collect(),
        reenter,
        nested,
        cancel_at,
        cancel_late: rng.coin(),
        cancel_in_nested: nested && rng.chance(1, 3),
    }
}

#[derive(Clone, Debug)]
struct FaultCfg {
    noise: bool,
    drop: bool,
    clone: bool,
    alias: bool,
    reenter: bool,
    cancel: bool,
    foreign: bool,
    alloc: bool,
    redo: bool,
    /// percent
    rate: usize,
}

pub fn gen_plan(rng: &mut Prng, property: &str, tier: &Tier) -> EnvPlan {
    let world = match property {
        "C19" => WorldKind::U,
        _ => match rng.below(10) {
            0..=3 => WorldKind::N,
            4 | 5 => WorldKind::F,
            _ => WorldKind::U,
        },
    };
    // C13 only: one run in eight uses 7-10 variables ("big" runs: diagrams with hundreds of nodes;
    // functions are then tracked by structural hash instead of a 64-bit truth table)
    let big = property == "C13" && rng.chance(1, 8);
    let nvars = if big { rng.range(7, 10) } else { rng.range(1, 6) };
    // mostly small universes (every pair of states is reachable), sometimes up to 2^8 elements
    let set_bits = match rng.below(24) {
        0..=2 => rng.range(5, 8),
        // wide universes (C19 only): membership is then checked on the elements the plan mentions
        // and on boundary values, against a finite / co-finite reference set
        // (above 64 bits: a caller-defined element type, executed by sims/widesets.rs)
        3 | 4 if property == "C19" => *rng.pick(&[16usize, 31, 32, 33, 63, 64, 16, 32, 63, 64, 65, 72, 96]),
        // (width 0: the universe is the single element 0)
        5 if property == "C19" => 0,
        _ => rng.range(1, 4),
    };
    let clients = rng.range(1, tier.max_clients as usize) as u8;
    let nsteps = if big { rng.range(5, 25) } else { rng.range(5, tier.max_steps) };
    let marathon_steps = 2600usize;
    let mut names: Vec<String> = fast::NAME_POOL.iter().map(|s| s.to_string()).collect();
    rng.shuffle(&mut names);
    names.truncate(nvars);
    if nvars >= 2 && rng.chance(1, 12) {
        let (a, b) = fast::colliding_name_pair();
        names[0] = a;
        names[1] = b;
    }
    if rng.chance(1, 6) {
        // names that need escaping in DOT output / are unusual
        let weird = ["q\"uote", "back\\slash", "new\nline", "", "sp ace", "tab\t", "ü→λ"];
        let k = rng.below(names.len());
        names[k] = rng.pick(&weird).to_string();
        // formula clients cannot spell such names; they only ever use the ordinary ones
    }

    let on = |rng: &mut Prng| rng.coin();
    let faults = FaultCfg {
        noise: on(rng),
        drop: on(rng),
        clone: on(rng),
        alias: on(rng),
        reenter: on(rng),
        cancel: on(rng),
        foreign: on(rng),
        alloc: on(rng),
        redo: on(rng),
        rate: *rng.pick(&[2usize, 10, 30]),
    };

    // per-kind operation weights from {0,1,3}
    let mut w = [0u32; 24];
    for x in &mut w {
        *x = *rng.pick(&[0u32, 1, 1, 3]);
    }
    // operation families by client kind
    let set_heavy = property == "C19" || (world == WorldKind::U && rng.chance(1, 3));
    let formula_heavy = world == WorldKind::N && rng.chance(1, 2);

    let sel = |rng: &mut Prng| rng.below(1 << 16);
    let list = |rng: &mut Prng, max: usize| -> Vec<usize> {
        let k = rng.range(0, max);
        (0..k).map(|_| rng.below(1 << 16)).collect()
    };

    let ids_dense = !(property != "C19" && rng.chance(1, 3));
    // C13 runs with outside operands (a quarter) relax the reachability part of I4, the others do not
    let cross_env = rng.coin() && (property != "C13" || rng.coin());
    // C19: a third of the runs are driven by set clients alone (no raw-API handle is kept alive)
    // C19 marathon: one run in 20000 is a very long history of one environment driven by set clients
    // over a 64-bit universe (hundreds of thousands of interned nodes, millions of sub-operations):
    // state that only builds up over long use
    let marathon = property == "C19" && rng.chance(1, 50000);
    let sets_only = marathon || (property == "C19" && rng.chance(1, 3));
    let hold_leaves = !(sets_only || rng.chance(1, 6));
    let (set_bits, nsteps) = if marathon { (64usize, marathon_steps) } else { (set_bits, nsteps) };
    let mut steps = Vec::with_capacity(nsteps);
    // every run starts by building a few variables so that operands are not all constants
    for i in 0..if sets_only { 0 } else { nvars.min(3) } {
        steps.push(Step {
            sym_fault: None,
            foreign: 0,
            client: 0,
            keep: true,
            op: Op::Var(i),
        });
    }
    let gen_cfg = {
        let ordinary: Vec<String> = names
            .iter()
            .filter(|n| fast::NAME_POOL.contains(&n.as_str()) || n.starts_with("reqst_x"))
            .cloned()
            .collect();
        let pool = if ordinary.is_empty() { vec![] } else { ordinary };
        fast::GenCfg {
            binder_pool: if pool.is_empty() { vec![] } else { vec![pool[rng.below(pool.len())].clone(), pool[rng.below(pool.len())].clone()] },
            pool,
            max_depth: rng.range(1, 4),
            max_list: rng.range(0, 3),
            weights: [2, 8, 4, 10, 2, 3, 2, 1, 2],
            max_fix_nesting: rng.range(0, 2),
        }
    };

    while steps.len() < nsteps {
        let client = rng.below(clients as usize) as u8;
        // fault steps
        if rng.chance(faults.rate, 100) {
            let mut cands: Vec<u8> = Vec::new();
            if faults.drop {
                cands.push(0);
            }
            if faults.clone {
                cands.push(1);
            }
            if faults.alloc {
                cands.push(2);
                cands.push(3);
            }
            if faults.foreign && !big {
                cands.push(4);
            }
            if faults.redo {
                cands.push(5);
            }
            if faults.alloc && nvars >= 4 && !big {
                cands.push(6);
            }
            if !cands.is_empty() {
                let op = match *rng.pick(&cands) {
                    0 => Op::DropHandle(sel(rng)),
                    1 => Op::CloneHandle(sel(rng)),
                    2 => {
                        let k = rng.range(1, 6);
                        Op::AllocShift((0..k).map(|_| rng.range(1, 4096) as u32).collect())
                    }
                    3 => Op::FreeShift,
                    4 => Op::ForeignFind(rng.next_u64()),
                    6 => Op::Bulk(rng.next_u64(), *rng.pick(&[8u16, 8, 40, 40, 200, 600])),
                    _ => Op::Redo(sel(rng)),
                };
                steps.push(Step {
                    sym_fault: None,
                    foreign: 0,
                    client,
                    keep: true,
                    op,
                });
                continue;
            }
        }
        let keep = !sets_only && !(faults.noise && rng.chance(faults.rate, 100));
        // client kind: client 0 is always a raw-API client; others may be set / formula clients
        let family = if client > 0 || clients == 1 || sets_only {
            if world == WorldKind::U && (sets_only && rng.chance(9, 10) || set_heavy && rng.chance(2, 3) || rng.chance(1, 8)) {
                1
            } else if world == WorldKind::N && (formula_heavy && rng.chance(1, 2) || rng.chance(1, 6)) {
                2
            } else {
                0
            }
        } else {
            0
        };
        let op = match family {
            1 => {
                let alias = faults.alias && rng.chance(faults.rate.max(10), 100);
                let a = sel(rng);
                let b = if alias { a } else { sel(rng) };
                let e = if marathon && rng.chance(9, 10) {
                    rng.next_u64() as usize
                } else if set_bits > 8 {
                    let ones = mask_bits(usize::MAX, set_bits);
                    match rng.below(8) {
                        0 => 0,
                        1 => ones,
                        2 => ones - 1,
                        3 => ones >> 1,
                        4 => (ones >> 1) + 1,
                        5 => 1,
                        _ => mask_bits(rng.next_u64() as usize, set_bits),
                    }
                } else {
                    rng.below(1 << set_bits)
                };
                if rng.chance(1, 14) {
                    // `related operands` for sets: build the exact complement of a set, then combine
                    // the two (their union is the universe, their intersection empty)
                    let mk = |op: Op| Step {
                        sym_fault: None,
                        foreign: 0,
                        client,
                        keep: true,
                        op,
                    };
                    let new_set = steps.len(); // id of the set the next step creates
                    steps.push(mk(Op::SetNew));
                    steps.push(mk(Op::SetUniverse(new_set)));
                    steps.push(mk(Op::SetBin(SetBinKind::Complement, new_set, a)));
                    let k = *rng.pick(&[SetBinKind::Union, SetBinKind::Intersect, SetBinKind::Complement]);
                    steps.push(mk(Op::SetBin(k, a, new_set)));
                    steps.push(mk(Op::SetContains(a, e)));
                    continue;
                }
                let set_weights: [u32; 13] = if marathon { [0, 1, 0, 0, 14, 3, 3, 3, 0, 0, 5, 0, 0] } else { [2, 2, 1, 1, 6, 3, 3, 3, 1, 1, 6, 1, 2] };
                match rng.weighted(&set_weights) {
                    0 => Op::SetNew,
                    1 => Op::SetFromElement(e),
                    2 => Op::SetFromBdd(sel(rng)),
                    3 => Op::SetToHandle(a),
                    4 => Op::SetInsert(a, e),
                    5 => Op::SetBin(SetBinKind::Union, a, b),
                    6 => Op::SetBin(SetBinKind::Intersect, a, b),
                    7 => Op::SetBin(SetBinKind::Complement, a, b),
                    8 => Op::SetEmpty(a),
                    9 => Op::SetUniverse(a),
                    10 => Op::SetContains(a, e),
                    11 => Op::SetDrop(a),
                    _ => Op::SetClone(a),
                }
            }
            2 => match rng.weighted(&[5, 2, 1, if faults.cancel { 1 } else { 0 }]) {
                0 if !gen_cfg.pool.is_empty() => {
                    let mut f = fast::gen_formula(rng, &gen_cfg);
                    // `related operands` for formula clients: a formula that contains an earlier
                    // formula of the run as a sub-term (so their diagrams share structure)
                    if rng.chance(1, 5) {
                        if let Some(prev) = steps.iter().rev().find_map(|st| match &st.op {
                            Op::Formula(g, _, _) | Op::FormulaOwnOrder(g, _, _) => Some(g.clone()),
                            _ => None,
                        }) {
                            let wrap = *rng.pick(&[fast::BinOp::And, fast::BinOp::Or, fast::BinOp::Xor, fast::BinOp::Implies]);
                            f = match rng.below(3) {
                                0 => F::Bin(wrap, Box::new(f), Box::new(prev)),
                                1 => F::Bin(wrap, Box::new(prev), Box::new(f)),
                                _ => F::Not(Box::new(prev)),
                            };
                        }
                    }
                    if ids_dense && rng.chance(1, 4) {
                        Op::FormulaOwnOrder(f, rng.next_u64(), rng.below(3) as u8)
                    } else {
                        Op::Formula(f, rng.next_u64(), rng.below(3) as u8)
                    }
                }
                1 => Op::ReEval(sel(rng)),
                3 => Op::FreeIndexPanic(sel(rng)),
                _ => Op::Convert(sel(rng)),
            },
            _ => {
                let alias = faults.alias && rng.chance(faults.rate, 100);
                let a = sel(rng);
                let b = if alias { a } else { sel(rng) };
                let vars = |rng: &mut Prng| -> Vec<usize> {
                    let k = *rng.pick(&[0usize, 1, 1, 1, 2, 2, 3, 4]);
                    (0..k).map(|_| rng.below(nvars + 2)).collect()
                };
                match rng.weighted(&w) {
                    0 => Op::Const(rng.coin()),
                    1 | 2 => Op::Var(rng.below(nvars)),
                    3 => Op::Un(UnKind::Not, a),
                    4 => Op::Bin(BinKind::And, a, b),
                    5 => Op::Bin(BinKind::Or, a, b),
                    6 => Op::Bin(
                        *rng.pick(&[BinKind::Implies, BinKind::Eq, BinKind::Xor, BinKind::Nor, BinKind::Nand]),
                        a,
                        b,
                    ),
                    7 => Op::Ite(a, b, sel(rng)),
                    8 => Op::Exists(vars(rng), a),
                    9 => Op::All(vars(rng), a),
                    10 => Op::ExistsImpl(rng.below(nvars + 2), a),
                    11 if property == "C02" && rng.chance(1, 1500) => {
                        // `long-list`: more operands than any fast path would bother with below
                        // (2^len recursion steps in the unchanged library: rare, with its own budget)
                        let len = rng.range(21, 22);
                        let l: Vec<usize> = (0..len).map(|_| rng.below(1 << 16)).collect();
                        let n = *rng.pick(&[-1i64, 0, len as i64 / 2, len as i64 - 1, len as i64, len as i64 + 1, len as i64 + 1, len as i64 + 2, len as i64 + 9]);
                        Op::CountN(*rng.pick(&[CountKind::Aln, CountKind::Amn, CountKind::Exn]), l, n)
                    }
                    11 => {
                        let l = list(rng, 5);
                        let n = rng.range_i64(-2, l.len() as i64 + 2);
                        Op::CountN(*rng.pick(&[CountKind::Aln, CountKind::Amn, CountKind::Exn]), l, n)
                    }
                    12 => Op::CountCmp(
                        *rng.pick(&[CmpKind::Leq, CmpKind::Lt, CmpKind::Geq, CmpKind::Gt, CmpKind::Eq]),
                        list(rng, 3),
                        list(rng, 3),
                    ),
                    13 => Op::Fp(a, gen_script(rng, &faults)),
                    14 => Op::Un(UnKind::Model, a),
                    15 => Op::Infer(a, rng.below(nvars)),
                    16 => Op::Retain(a, rng.below(3) as u8),
                    17 => Op::Un(*rng.pick(&[UnKind::Clean, UnKind::Simplify, UnKind::Find]), a),
                    18 => Op::NodeList(a),
                    19 => Op::GetHash(a),
                    20 => Op::Size,
                    21 => Op::Duplicates(a),
                    22 => Op::Bin(BinKind::And, a, b),
                    _ => Op::Bin(BinKind::Or, a, b),
                }
            }
        };
        // C13: only for operations that never look their operand up in the table (`find`,
        // `clean`, `duplicates` panic on a node the environment does not hold, by contract)
        let foreign_ok = property == "C02"
            || (property == "C13"
                && matches!(
                    op,
                    Op::Bin(..) | Op::Ite(..) | Op::Exists(..) | Op::All(..) | Op::ExistsImpl(..) | Op::CountN(..) | Op::CountCmp(..) | Op::Un(UnKind::Not | UnKind::Model, _) | Op::Infer(..) | Op::Retain(..)
                ));
        let foreign = if foreign_ok && cross_env && rng.chance(faults.rate.max(10), 100) {
            (rng.range(1, 7) as u8) | if rng.coin() { 0x80 } else { 0 }
        } else if property == "C13" && op.is_raw() && !matches!(op, Op::Fp(..)) && rng.chance(1, 40) {
            0x40
        } else if (property == "C13" || property == "C02") && op.is_raw() && rng.chance(1, 25) {
            // `address-alias`: the first nodes this operation allocates lie 4 GiB apart
            0x10
        } else if matches!(op, Op::SetContains(..)) && rng.chance(1, 6) {
            // `borrow-held`: the client holds a shared borrow of the set's public cell across the query
            0x20
        } else {
            0
        };
        let sym_fault = if world == WorldKind::F && op.is_raw() && rng.chance(faults.rate.max(10), 100) {
            Some(*rng.pick(&[0u32, 1, 2, 3, 5, 8, 13, 21, 40, 80]))
        } else {
            None
        };
        let retry = if sym_fault.is_some() && rng.coin() {
            // what a caller does after a failed call: it tries again (for quantifiers: with
            // another variable as well)
            let mut again = op.clone();
            match &mut again {
                Op::Exists(vs, _) | Op::All(vs, _) => {
                    for v in vs.iter_mut() {
                        if rng.coin() {
                            *v = (*v + 1) % (nvars + 1);
                        }
                    }
                }
                Op::ExistsImpl(v, _) => *v = (*v + 1 + rng.below(2)) % (nvars + 1),
                _ => {}
            }
            Some(again)
        } else {
            None
        };
        // `related operands`: now and then the next steps use structurally related diagrams on purpose
        // (x with its own negation, x with a cofactor / quantification of x, the same operation
        // with swapped operands), which random operand selection rarely assembles
        let related = if op.is_raw() && !sets_only && rng.chance(1, 10) { Some(rng.below(5)) } else { None };
        steps.push(Step { sym_fault, foreign, client, keep, op: op.clone() });
        if let Some(kind) = related {
            let this_id = steps.len() - 1 + 2; // the handle id the step above created (if it kept one)
            let bin = *rng.pick(&[BinKind::And, BinKind::Or, BinKind::Xor, BinKind::Eq, BinKind::Implies, BinKind::Nand, BinKind::Nor]);
            let mk = |op: Op| Step {
                sym_fault: None,
                foreign: 0,
                client,
                keep: true,
                op,
            };
            match kind {
                0 => {
                    // x op (not x)
                    steps.push(mk(Op::Un(UnKind::Not, this_id)));
                    steps.push(mk(Op::Bin(bin, this_id, this_id + 1)));
                }
                1 => {
                    // x op (exists v # x) and x op (all v # x)
                    let v = rng.below(nvars);
                    steps.push(mk(Op::Exists(vec![v], this_id)));
                    steps.push(mk(Op::Bin(bin, this_id, this_id + 1)));
                    steps.push(mk(Op::All(vec![v], this_id)));
                    steps.push(mk(Op::Bin(bin, this_id + 3, this_id)));
                }
                2 => {
                    // the same binary operation with swapped operands, then both results combined
                    if let Op::Bin(k, a, b) = &op {
                        steps.push(mk(Op::Bin(*k, *b, *a)));
                        steps.push(mk(Op::Bin(BinKind::Eq, this_id, this_id + 1)));
                    }
                }
                3 => {
                    // ite(x, x, not x), ite(not x, x, x)
                    steps.push(mk(Op::Un(UnKind::Not, this_id)));
                    steps.push(mk(Op::Ite(this_id, this_id, this_id + 1)));
                    steps.push(mk(Op::Ite(this_id + 1, this_id, this_id)));
                }
                _ => {
                    // counting over x, not x, x
                    steps.push(mk(Op::Un(UnKind::Not, this_id)));
                    steps.push(mk(Op::CountN(*rng.pick(&[CountKind::Aln, CountKind::Amn, CountKind::Exn]), vec![this_id, this_id + 1, this_id], rng.range_i64(0, 3))));
                }
            }
        }
        if let Some(again) = retry {
            steps.push(Step {
                sym_fault: None,
                foreign: 0,
                client,
                keep: true,
                op: again,
            });
        }
    }

    // `deep-diagram` probe (C02 / C13): diagrams far taller than anything the truth-table oracles reach
    if (property == "C02" || property == "C13") && world == WorldKind::U && rng.chance(1, 300) {
        steps.push(Step {
            sym_fault: None,
            foreign: 0,
            client: 0,
            keep: false,
            op: Op::DeepChain(*rng.pick(&[63u16, 64, 65, 100, 127, 128, 129, 130, 140, 200, 255, 256, 257, 300])),
        });
    }

    // `call-count` probe (C13): a quantification of a live diagram, then so many cheap
    // quantifier calls that a 16-bit (thorough tier, rarely: 32-bit) call counter of the
    // environment comes round, then the quantification of the SAME diagram over ANOTHER variable
    // as exactly the 2^16-th (2^32-th) quantifier call after the first one (a window of repeated
    // calls would overwrite whatever the first one left behind)
    if property == "C13" && !big && nvars >= 2 && world == WorldKind::U && rng.chance(1, 1500) {
        let width: u64 = if tier.wrap32 && rng.chance(1, 300) { 1 << 32 } else { 1 << 16 };
        let mk = |op: Op| Step {
            sym_fault: None,
            foreign: 0,
            client: 0,
            keep: true,
            op,
        };
        let (h, v1, v2) = if nvars >= 3 && rng.chance(2, 3) {
            // a diagram that tests variable 0 at its root and whose quantifications over
            // variables 1 and 2 differ: (x0 & x1) | (-x0 & x2)
            let t = steps.len();
            steps.push(mk(Op::Var(0)));
            steps.push(mk(Op::Var(1)));
            steps.push(mk(Op::Var(2)));
            steps.push(mk(Op::Bin(BinKind::And, t + 2, t + 3)));
            steps.push(mk(Op::Un(UnKind::Not, t + 2)));
            steps.push(mk(Op::Bin(BinKind::And, t + 6, t + 4)));
            steps.push(mk(Op::Bin(BinKind::Or, t + 5, t + 7)));
            (t + 8, 1, 2)
        } else {
            (steps.len().saturating_sub(1 + rng.below(4)), rng.below(nvars), rng.below(nvars))
        };
        let kind = rng.below(3) as u8;
        let q = |v: usize| match kind {
            0 => Op::ExistsImpl(v, h),
            1 => Op::All(vec![v], h),
            _ => Op::Exists(vec![v], h),
        };
        let mk = |op: Op| Step {
            sym_fault: None,
            foreign: 0,
            client: 0,
            keep: false,
            op,
        };
        steps.push(mk(q(v1)));
        steps.push(mk(Op::Spin(if kind == 1 { 1 } else { 0 }, width - 1)));
        steps.push(mk(q(v2)));
    }

    let ids: Vec<usize> = if !ids_dense && !set_heavy {
        let mut v = Vec::new();
        let mut next = rng.below(5);
        for _ in 0..nvars + 2 {
            v.push(next);
            next += *rng.pick(&[1usize, 1, 2, 7, 100, 1 << 20, 1 << 40]);
        }
        if nvars >= 2 && rng.chance(1, 2) {
            // `hash-collision`: the last variable's id is chosen so that the diagram of that variable
            // and the diagram of a negated earlier variable have the same 64-bit structural hash
            let j = rng.below(nvars - 1);
            let m = crate::fx::id_colliding_with_negated(v[j] as u64) as usize;
            if m > v[nvars - 2] && m < usize::MAX - 4 {
                v[nvars - 1] = m;
                v[nvars] = m + 1;
                v[nvars + 1] = m + 2;
            }
        }
        v
    } else {
        Vec::new()
    };
    EnvPlan {
        property: property.to_string(),
        world,
        nvars,
        names,
        set_bits,
        clients,
        ids,
        hold_leaves,
        env_default: rng.chance(1, 4),
        set_bits2: if property == "C19" && rng.chance(1, 12) {
            let w = *rng.pick(&[0usize, 1, 2, 3, 4, 5, 6, 7, 8, 16, 33, 64, 70]);
            if w == set_bits { 0 } else { w }
        } else {
            0
        },
        steps,
    }
}

// ---------------------------------------------------------------------------------------------
// Execution
// ---------------------------------------------------------------------------------------------

#[derive(Clone, Debug)]
pub enum Res<S: BDDSymbol> {
    Bdd(Rc<BDD<S>>),
    Pair(bool, bool),
    Num(u64),
    List(Vec<Rc<BDD<S>>>),
    Unit,
}

fn tee(filter: u8) -> TruthTableEntry {
    match filter {
        1 => TruthTableEntry::True,
        2 => TruthTableEntry::False,
        _ => TruthTableEntry::Any,
    }
}

/// Execute one raw operation against an environment. A pure function of (env contents, args).
fn apply<S: BDDSymbol>(
    env: &BDDEnv<S>,
    sym: &dyn Fn(usize) -> S,
    nvars: usize,
    op: &Op,
    args: &[Rc<BDD<S>>],
) -> Res<S> {
    let a = |i: usize| Rc::clone(&args[i]);
    match op {
        Op::Const(b) => Res::Bdd(env.mk_const(*b)),
        Op::Var(i) => Res::Bdd(env.var(sym(*i))),
        Op::Un(k, _) => Res::Bdd(match k {
            UnKind::Not => env.not(a(0)),
            UnKind::Model => env.model(a(0)),
            UnKind::Clean => env.clean(a(0)),
            UnKind::Simplify => env.simplify(&args[0]),
            UnKind::Find => env.find(&args[0]),
        }),
        Op::Bin(k, _, _) => Res::Bdd(match k {
            BinKind::And => env.and(a(0), a(1)),
            BinKind::Or => env.or(a(0), a(1)),
            BinKind::Implies => env.implies(a(0), a(1)),
            BinKind::Eq => env.eq(a(0), a(1)),
            BinKind::Xor => env.xor(a(0), a(1)),
            BinKind::Nor => env.nor(a(0), a(1)),
            BinKind::Nand => env.nand(a(0), a(1)),
        }),
        Op::Ite(..) => Res::Bdd(env.ite(a(0), a(1), a(2))),
        Op::Exists(vs, _) => Res::Bdd(env.exists(vs.iter().map(|v| sym(*v)).collect(), a(0))),
        Op::All(vs, _) => Res::Bdd(env.all(vs.iter().map(|v| sym(*v)).collect(), a(0))),
        Op::ExistsImpl(v, _) => Res::Bdd(env.exists_impl(&sym(*v), a(0))),
        Op::CountN(k, _, n) => Res::Bdd(match k {
            CountKind::Aln => env.aln(args, *n),
            CountKind::Amn => env.amn(args, *n),
            CountKind::Exn => env.exn(args, *n),
        }),
        Op::CountCmp(k, l, _) => {
            let (x, y) = args.split_at(l.len());
            Res::Bdd(match k {
                CmpKind::Leq => env.count_leq(x, y),
                CmpKind::Lt => env.count_lt(x, y),
                CmpKind::Geq => env.count_geq(x, y),
                CmpKind::Gt => env.count_gt(x, y),
                CmpKind::Eq => env.count_eq(x, y),
            })
        }
        Op::Fp(_, s) => {
            let calls = Cell::new(0u32);
            let g = a(1);
            let h = a(2);
            let chain: Vec<Rc<BDD<S>>> = args[3..].to_vec();
            let r = env.fp(a(0), |x| {
                let k = calls.get();
                calls.set(k + 1);
                if s.cancel_at == Some(k as u8) && !s.cancel_late {
                    std::panic::panic_any(ScriptCancel);
                }
                // reenter: unrelated environment traffic from inside the transformer
                for j in 0..s.reenter {
                    let v = env.var(sym(j as usize % nvars.max(1)));
                    let t = env.and(v, Rc::clone(&g));
                    let _ = env.exists(vec![sym(0)], env.or(t, Rc::clone(&x)));
                }
                if s.nested {
                    let _ = env.fp(Rc::clone(&x), |y| {
                        if s.cancel_in_nested && s.cancel_at == Some(k as u8) {
                            std::panic::panic_any(ScriptCancel);
                        }
                        env.or(y, Rc::clone(&h))
                    });
                }
                if s.cancel_at == Some(k as u8) && s.cancel_late {
                    std::panic::panic_any(ScriptCancel);
                }
                match s.kind {
                    ScriptKind::OrG => env.or(x, Rc::clone(&g)),
                    ScriptKind::AndG => env.and(x, Rc::clone(&g)),
                    ScriptKind::ConstG => Rc::clone(&g),
                    ScriptKind::OrAndGH => env.or(x, env.and(Rc::clone(&g), Rc::clone(&h))),
                    ScriptKind::IteGXH => env.ite(Rc::clone(&g), x, Rc::clone(&h)),
                    ScriptKind::Chain => {
                        if chain.is_empty() {
                            x
                        } else {
                            Rc::clone(&chain[(k as usize).min(chain.len() - 1)])
                        }
                    }
                }
            });
            Res::Bdd(r)
        }
        Op::Infer(_, v) => {
            let (x, y) = env.infer(a(0), sym(*v));
            Res::Pair(x, y)
        }
        Op::Retain(_, f) => Res::Bdd(env.retain_choice_bottom_up(a(0), tee(*f))),
        Op::NodeList(_) => Res::List(args[0].node_list()),
        Op::GetHash(_) => Res::Num(args[0].get_hash()),
        Op::Duplicates(_) => Res::Num(env.duplicates(a(0)) as u64),
        _ => Res::Unit,
    }
}

/// Reference semantics of the raw operations on 64-bit truth tables (the lock-step model of
/// C02's observation "`==` with the diagram built from the expected truth table"). None = the
/// operation has no single expected function (model, retain, cancelled fp ...).
fn expected_tt(op: &Op, a: &[u64], n: usize) -> Option<u64> {
    let full = low_mask(n);
    let cof = |tt: u64, i: usize, v: bool| -> u64 {
        let m = var64(i, n);
        let sh = 1usize << i;
        if v {
            let x = tt & m;
            x | (x >> sh)
        } else {
            let x = tt & !m & full;
            x | (x << sh)
        }
    };
    let count_at = |list: &[u64], asg: usize| -> i64 { list.iter().filter(|t| (**t >> asg) & 1 == 1).count() as i64 };
    Some(match op {
        Op::Const(b) => {
            if *b {
                full
            } else {
                0
            }
        }
        Op::Var(i) => var64(*i, n),
        Op::Un(UnKind::Not, _) => !a[0] & full,
        Op::Un(UnKind::Clean | UnKind::Simplify | UnKind::Find, _) => a[0],
        Op::Un(UnKind::Model, _) => return None,
        Op::Bin(k, _, _) => {
            let (x, y) = (a[0], a[1]);
            (match k {
                BinKind::And => x & y,
                BinKind::Or => x | y,
                BinKind::Implies => !x | y,
                BinKind::Eq => !(x ^ y),
                BinKind::Xor => x ^ y,
                BinKind::Nor => !(x | y),
                BinKind::Nand => !(x & y),
            }) & full
        }
        Op::Ite(..) => ((a[0] & a[1]) | (!a[0] & a[2])) & full,
        Op::Exists(vs, _) => {
            let mut t = a[0];
            for v in vs {
                if *v < n {
                    t = cof(t, *v, true) | cof(t, *v, false);
                }
            }
            t
        }
        Op::All(vs, _) => {
            let mut t = a[0];
            for v in vs {
                if *v < n {
                    t = cof(t, *v, true) & cof(t, *v, false);
                }
            }
            t
        }
        Op::ExistsImpl(v, _) => {
            if *v < n {
                cof(a[0], *v, true) | cof(a[0], *v, false)
            } else {
                a[0]
            }
        }
        Op::CountN(k, _, bound) => {
            let mut t = 0u64;
            for asg in 0..(1usize << n) {
                let c = count_at(a, asg);
                let ok = match k {
                    CountKind::Aln => c >= *bound,
                    CountKind::Amn => c <= *bound,
                    CountKind::Exn => c == *bound,
                };
                if ok {
                    t |= 1u64 << asg;
                }
            }
            t
        }
        Op::CountCmp(k, l, _) => {
            let (x, y) = a.split_at(l.len());
            let mut t = 0u64;
            for asg in 0..(1usize << n) {
                let (cx, cy) = (count_at(x, asg), count_at(y, asg));
                let ok = match k {
                    CmpKind::Leq => cx <= cy,
                    CmpKind::Lt => cx < cy,
                    CmpKind::Geq => cx >= cy,
                    CmpKind::Gt => cx > cy,
                    CmpKind::Eq => cx == cy,
                };
                if ok {
                    t |= 1u64 << asg;
                }
            }
            t
        }
        Op::Fp(_, s) => {
            if s.cancel_at.is_some() {
                return None;
            }
            let (g, h) = (a[1], a[2]);
            let chain = &a[3..];
            let mut x = a[0];
            let mut k = 0usize;
            loop {
                let new = match s.kind {
                    ScriptKind::OrG => x | g,
                    ScriptKind::AndG => x & g,
                    ScriptKind::ConstG => g,
                    ScriptKind::OrAndGH => x | (g & h),
                    ScriptKind::IteGXH => ((g & x) | (!g & h)) & full,
                    ScriptKind::Chain => {
                        if chain.is_empty() {
                            x
                        } else {
                            chain[k.min(chain.len() - 1)]
                        }
                    }
                };
                k += 1;
                if new == x {
                    break x;
                }
                x = new;
                if k > 200 {
                    return None;
                }
            }
        }
        _ => return None,
    })
}

fn res_equal<S: BDDSymbol>(x: &Res<S>, y: &Res<S>) -> Result<(), String> {
    match (x, y) {
        (Res::Bdd(a), Res::Bdd(b)) => {
            if a != b {
                return Err("diagrams are structurally different".into());
            }
            if a.get_hash() != b.get_hash() {
                return Err("equal diagrams hash differently".into());
            }
            Ok(())
        }
        (Res::Pair(a, b), Res::Pair(c, d)) => {
            if (a, b) == (c, d) {
                Ok(())
            } else {
                Err(format!("({a},{b}) vs ({c},{d})"))
            }
        }
        (Res::Num(a), Res::Num(b)) => {
            if a == b {
                Ok(())
            } else {
                Err(format!("{a} vs {b}"))
            }
        }
        (Res::List(a), Res::List(b)) => {
            if a.len() != b.len() {
                return Err(format!("lists of length {} vs {}", a.len(), b.len()));
            }
            for (i, (p, q)) in a.iter().zip(b).enumerate() {
                if p != q {
                    return Err(format!("list element {i} differs"));
                }
            }
            Ok(())
        }
        (Res::Unit, Res::Unit) => Ok(()),
        _ => Err("results of different kinds".into()),
    }
}

struct Handle<S: BDDSymbol> {
    rc: Rc<BDD<S>>,
    tt: u64,
}

struct LogEntry<S: BDDSymbol> {
    op: Op,
    args: Vec<Rc<BDD<S>>>,
    res: Res<S>,
}

/// Names and symbol ids of the run's variables.
pub struct Syms {
    pub names: Vec<Rc<String>>,
    pub ids: Vec<usize>,
}

impl Syms {
    pub fn id(&self, i: usize) -> usize {
        if self.ids.is_empty() {
            i
        } else if i < self.ids.len() {
            self.ids[i]
        } else {
            self.ids[self.ids.len() - 1] + 1 + (i - self.ids.len())
        }
    }
    pub fn index_of(&self, id: usize) -> usize {
        if self.ids.is_empty() {
            id
        } else {
            self.ids.iter().position(|x| *x == id).unwrap_or(usize::MAX)
        }
    }
}

pub trait World: Sized {
    type S: BDDSymbol + 'static;
    type Ext;
    fn sym(syms: &Syms, i: usize) -> Self::S;
    /// raw symbol id
    fn idx(s: &Self::S) -> usize;
    fn new_ext() -> Self::Ext;
    /// extra roots whose nodes must satisfy the sharing invariant (diagrams held inside sets ...)
    fn extra_roots(ex: &Exec<Self>) -> Vec<Rc<BDD<Self::S>>>;
    /// world-specific step; Ok(true) if handled
    fn world_step(ex: &mut Exec<Self>, step_no: usize, step: &Step) -> Result<bool, Violation>;
}

pub struct Exec<'p, W: World> {
    plan: &'p EnvPlan,
    n: usize,
    names: Rc<Syms>,
    env: Rc<BDDEnv<W::S>>,
    /// a second, long-lived environment: source of `cross-env` operands (C02)
    env2: BDDEnv<W::S>,
    /// live handles keyed by a stable id: 0/1 = the constants, k+2 = created by plan step k
    handles: BTreeMap<usize, Handle<W::S>>,
    cur_step: usize,
    /// the elements membership is checked for: all b-bit integers while b <= 8, otherwise every
    /// element the plan mentions plus boundary values
    set_universe: Vec<usize>,
    log: Vec<LogEntry<W::S>>,
    junk: Vec<Vec<u8>>,
    ext: W::Ext,
    stats: Stats,
    trace: Vec<u64>,
    states: Vec<u64>,
    /// what was wrong with the environment right after construction (I4), if anything
    initial: Option<String>,
    cancelled_before: bool,
    /// C13: an operand that lives outside the environment has been handed to an operation, so
    /// registered nodes may legitimately have children that are not the registered allocation
    outside_used: bool,
    interleavings: u64,
    last_client: Option<u8>,
    nonconst_results: u64,
    faults_fired: u64,
    budget_hit: bool,
}

pub struct UWorld;
pub struct NWorld;

/// Reference model of a set of b-bit integers that stays exact for b = 64 as well: a finite set
/// or the complement of one.
#[derive(Clone, Debug, Default, PartialEq, Eq)]
pub struct SetModel {
    finite: BTreeSet<usize>,
    co: bool,
}

impl SetModel {
    fn of(items: impl IntoIterator<Item = usize>) -> Self {
        Self {
            finite: items.into_iter().collect(),
            co: false,
        }
    }
    fn contains(&self, e: usize) -> bool {
        self.finite.contains(&e) != self.co
    }
    fn insert(&mut self, e: usize) {
        if self.co {
            self.finite.remove(&e);
        } else {
            self.finite.insert(e);
        }
    }
    fn clear(&mut self) {
        *self = Self::default();
    }
    fn fill(&mut self) {
        *self = Self {
            finite: BTreeSet::new(),
            co: true,
        };
    }
    fn negated(&self) -> Self {
        Self {
            finite: self.finite.clone(),
            co: !self.co,
        }
    }
    fn intersect(&self, o: &Self) -> Self {
        let (f1, f2) = (&self.finite, &o.finite);
        match (self.co, o.co) {
            (false, false) => Self::of(f1.intersection(f2).copied()),
            (true, false) => Self::of(f2.difference(f1).copied()),
            (false, true) => Self::of(f1.difference(f2).copied()),
            (true, true) => Self {
                finite: f1.union(f2).copied().collect(),
                co: true,
            },
        }
    }
    fn union(&self, o: &Self) -> Self {
        self.negated().intersect(&o.negated()).negated()
    }
    fn difference(&self, o: &Self) -> Self {
        self.intersect(&o.negated())
    }
    /// the members among the given universe list
    fn members(&self, universe: &[usize]) -> BTreeSet<usize> {
        universe.iter().copied().filter(|e| self.contains(*e)).collect()
    }
}

pub struct SetSlot {
    set: BDDSet,
    model: SetModel,
}

pub struct NExt {
    formulas: Vec<(ParsedFormula, Rc<BDD<NamedSymbol>>)>,
    converted: Vec<(Rc<BDD<usize>>, u64)>,
}

impl World for UWorld {
    type S = usize;
    type Ext = BTreeMap<usize, SetSlot>;
    fn sym(syms: &Syms, i: usize) -> usize {
        syms.id(i)
    }
    fn idx(s: &usize) -> usize {
        *s
    }
    fn new_ext() -> Self::Ext {
        BTreeMap::new()
    }
    fn extra_roots(ex: &Exec<Self>) -> Vec<Rc<BDD<usize>>> {
        ex.ext.values().map(|s| s.set.bdd.borrow().clone()).collect()
    }
    fn world_step(ex: &mut Exec<Self>, step_no: usize, step: &Step) -> Result<bool, Violation> {
        ex.set_step(step_no, step)
    }
}

impl World for NWorld {
    type S = NamedSymbol;
    type Ext = NExt;
    fn sym(syms: &Syms, i: usize) -> NamedSymbol {
        NamedSymbol {
            name: if i < syms.names.len() {
                Rc::clone(&syms.names[i])
            } else {
                Rc::new(format!("__extra{i}"))
            },
            id: syms.id(i),
        }
    }
    fn idx(s: &NamedSymbol) -> usize {
        s.id
    }
    fn new_ext() -> Self::Ext {
        NExt {
            formulas: Vec::new(),
            converted: Vec::new(),
        }
    }
    fn extra_roots(_: &Exec<Self>) -> Vec<Rc<BDD<NamedSymbol>>> {
        Vec::new()
    }
    fn world_step(ex: &mut Exec<Self>, step_no: usize, step: &Step) -> Result<bool, Violation> {
        ex.formula_step(step_no, step)
    }
}

thread_local! {
    static SYM_FAULT: Cell<Option<u32>> = const { Cell::new(None) };
}

fn sym_tick() {
    SYM_FAULT.with(|c| {
        if let Some(k) = c.get() {
            if k == 0 {
                c.set(None);
                std::panic::panic_any(ScriptCancel);
            }
            c.set(Some(k - 1));
        }
    });
}

/// A user symbol type whose clone and comparison count down an armed fault.
/// Equality and hashing never fault (they run inside the hash map's own critical sections).
#[derive(Debug, PartialEq, Eq, Hash)]
pub struct FaultySym(pub usize);

impl Clone for FaultySym {
    fn clone(&self) -> Self {
        sym_tick();
        FaultySym(self.0)
    }
}

impl Ord for FaultySym {
    fn cmp(&self, other: &Self) -> std::cmp::Ordering {
        sym_tick();
        self.0.cmp(&other.0)
    }
}

impl PartialOrd for FaultySym {
    fn partial_cmp(&self, other: &Self) -> Option<std::cmp::Ordering> {
        Some(self.cmp(other))
    }
}

impl std::fmt::Display for FaultySym {
    fn fmt(&self, f: &mut std::fmt::Formatter<'_>) -> std::fmt::Result {
        write!(f, "s{}", self.0)
    }
}

pub struct FWorld;

impl World for FWorld {
    type S = FaultySym;
    type Ext = ();
    fn sym(syms: &Syms, i: usize) -> FaultySym {
        FaultySym(syms.id(i))
    }
    fn idx(s: &FaultySym) -> usize {
        s.0
    }
    fn new_ext() -> Self::Ext {}
    fn extra_roots(_: &Exec<Self>) -> Vec<Rc<BDD<FaultySym>>> {
        Vec::new()
    }
    fn world_step(_: &mut Exec<Self>, _: usize, _: &Step) -> Result<bool, Violation> {
        Ok(true)
    }
}

fn viol(property: &str, oracle: &str, site: &str, step: usize, detail: String) -> Violation {
    Violation {
        property: property.to_string(),
        oracle: oracle.to_string(),
        site: site.to_string(),
        step,
        detail,
    }
}

impl<'p, W: World> Exec<'p, W> {
    fn new(plan: &'p EnvPlan) -> Self {
        let names = Rc::new(Syms {
            names: plan.names.iter().map(|s| Rc::new(s.clone())).collect(),
            ids: plan.ids.clone(),
        });
        let env: Rc<BDDEnv<W::S>> = Rc::new(if plan.env_default { BDDEnv::default() } else { BDDEnv::new() });
        // before anything is asked of it, an environment holds exactly the two leaves
        let initial = {
            let t = env.nodes.borrow();
            if t.contains_key(&BDD::True) && t.contains_key(&BDD::False) && t.len() == 2 && env.size() == 2 {
                None
            } else {
                Some(format!(
                    "a brand-new environment ({}) holds {} node(s), size() = {}, true leaf {}, false leaf {}",
                    if plan.env_default { "BDDEnv::default()" } else { "BDDEnv::new()" },
                    t.len(),
                    env.size(),
                    if t.contains_key(&BDD::True) { "present" } else { "missing" },
                    if t.contains_key(&BDD::False) { "present" } else { "missing" }
                ))
            }
        };
        let mut ex = Self {
            initial,
            env2: BDDEnv::new(),
            plan,
            n: plan.nvars,
            names,
            env,
            handles: BTreeMap::new(),
            cur_step: 0,
            set_universe: set_universe_of(plan),
            log: Vec::new(),
            junk: Vec::new(),
            ext: W::new_ext(),
            stats: Stats::new(),
            trace: Vec::new(),
            states: Vec::new(),
            cancelled_before: false,
            outside_used: false,
            interleavings: 0,
            last_client: None,
            nonconst_results: 0,
            faults_fired: 0,
            budget_hit: false,
        };
        if plan.ids.len() > plan.nvars && plan.nvars >= 2 {
            let last = plan.ids[plan.nvars - 1] as u64;
            if plan.ids[..plan.nvars - 1].iter().any(|j| crate::fx::id_colliding_with_negated(*j as u64) == last) {
                bump(&mut ex.stats, "fault.hash-collision");
            }
        }
        let f = ex.env.mk_const(false);
        let t = ex.env.mk_const(true);
        if plan.hold_leaves {
            let (ft, tt) = (ex.walk(&f).unwrap_or(0), ex.walk(&t).unwrap_or(0));
            ex.handles.insert(0, Handle { rc: f, tt: ft });
            ex.handles.insert(1, Handle { rc: t, tt });
        }
        ex
    }

    fn prop(&self) -> &str {
        &self.plan.property
    }

    fn symf(&self) -> impl Fn(usize) -> W::S + '_ {
        move |i| W::sym(&self.names, i)
    }

    fn walk(&self, node: &BDD<W::S>) -> Result<u64, String> {
        if self.n > 6 {
            // big runs: the structural hash stands in for the truth table (same structure, same
            // function); only the structural oracles I1-I5 run in this mode
            return Ok(node.get_hash());
        }
        let syms = &self.names;
        walk64(node, self.n, &|s| syms.index_of(W::idx(s)))
    }

    /// A selector names "the newest live handle created at or before step (sel mod current step)".
    /// Ids are stable, so blanking an unrelated step of a plan does not re-route other operands.
    fn pick_id(&self, sel: usize) -> usize {
        let target = sel % (self.cur_step + 2);
        self.handles
            .range(..=target)
            .next_back()
            .map(|(k, _)| *k)
            .or_else(|| self.handles.keys().next().copied())
            .unwrap_or(usize::MAX)
    }

    /// The handle a selector names; when the clients hold no handle at all, a leaf fetched from
    /// the environment on the spot (a panic there is reported by the caller's catch).
    fn pick(&self, sel: usize) -> Rc<BDD<W::S>> {
        match self.handles.get(&self.pick_id(sel)) {
            Some(h) => Rc::clone(&h.rc),
            None => self.env.mk_const(sel & 1 == 1),
        }
    }

    fn keep(&mut self, rc: Rc<BDD<W::S>>, tt: u64) {
        if self.n > 6 {
            bump(&mut self.stats, "probe.big_run_handle");
        }
        if self.handles.len() >= MAX_HANDLES {
            if let Some(oldest) = self.handles.range(2..).next().map(|(k, _)| *k) {
                self.handles.remove(&oldest);
            }
        }
        self.handles.insert(self.cur_step + 2, Handle { rc, tt });
    }

    // ---- oracles ---------------------------------------------------------------------------

    /// I1: every live handle still denotes the function recorded when it was handed out.
    fn check_i1(&self, step: usize, opname: &str) -> Result<(), Violation> {
        for (k, h) in self.handles.iter() {
            match self.walk(&h.rc) {
                Ok(tt) if tt == h.tt => {}
                Ok(tt) => {
                    return Err(viol(
                        "C13",
                        "I1",
                        opname,
                        step,
                        format!(
                            "handle #{k} denoted {:#x} when handed out, denotes {:#x} after step {step} ({opname})",
                            h.tt, tt
                        ),
                    ))
                }
                Err(e) => return Err(viol("C13", "I1", opname, step, format!("handle #{k}: {e}"))),
            }
        }
        Ok(())
    }

    /// I4: every reachable node is the one shared allocation registered in the environment.
    fn check_i4(&self, step: usize, opname: &str) -> Result<(), Violation> {
        let table = match self.env.nodes.try_borrow() {
            Ok(t) => t,
            Err(_) => {
                return Err(viol(
                    "C13",
                    "I5",
                    opname,
                    step,
                    "environment table is still mutably borrowed after the step".into(),
                ))
            }
        };
        if !table.contains_key(&BDD::True) || !table.contains_key(&BDD::False) {
            return Err(viol("C13", "I4", opname, step, "a leaf is missing from the environment".into()));
        }
        if self.env.size() != table.len() {
            return Err(viol("C13", "I4", opname, step, "size() differs from the table length".into()));
        }
        let mut seen: HashSet<*const BDD<W::S>> = HashSet::new();
        let mut stack: Vec<Rc<BDD<W::S>>> = self.handles.values().map(|h| Rc::clone(&h.rc)).collect();
        stack.extend(W::extra_roots(self));
        if self.outside_used {
            // nodes built over an outside operand keep that operand as a child: not judged
            stack.clear();
        }
        while let Some(node) = stack.pop() {
            if !seen.insert(Rc::as_ptr(&node)) {
                continue;
            }
            match table.get(node.as_ref()) {
                None => {
                    return Err(viol(
                        "C13",
                        "I4",
                        opname,
                        step,
                        format!("a reachable node ({}) is not registered in the environment", describe(&node)),
                    ))
                }
                Some(entry) => {
                    if !Rc::ptr_eq(entry, &node) {
                        return Err(viol(
                            "C13",
                            "I4",
                            opname,
                            step,
                            format!(
                                "two allocations of one structure: reachable node ({}) is not the registered one",
                                describe(&node)
                            ),
                        ));
                    }
                }
            }
            if let BDD::Choice(t, _, f) = node.as_ref() {
                stack.push(Rc::clone(t));
                stack.push(Rc::clone(f));
            }
        }
        // table self-consistency (bounded: the whole table while small, else skipped on odd steps)
        if table.len() <= 2048 || step % 8 == 0 {
            for (k, v) in table.iter() {
                if k != v.as_ref() {
                    return Err(viol(
                        "C13",
                        "I4",
                        opname,
                        step,
                        "a table entry's key differs from the node it maps to".into(),
                    ));
                }
            }
        }
        Ok(())
    }

    /// K1 + K2 on one diagram whose recorded function is `tt`.
    fn check_k12(&self, d: &BDD<W::S>, tt: u64, step: usize, opname: &str, origin: &str) -> Result<(), Violation> {
        if let Err(e) = ordered_reduced(d) {
            return Err(viol("C02", "K1", opname, step, format!("{origin}: {e}")));
        }
        let names = &self.names;
        let c = canon64::<W::S>(tt, self.n, &|i| W::sym(names, i));
        if *c != *d {
            return Err(viol(
                "C02",
                "K2",
                opname,
                step,
                format!("{origin}: result is not the canonical diagram of its function {tt:#x}"),
            ));
        }
        if c.get_hash() != d.get_hash() {
            return Err(viol("C02", "K2", opname, step, format!("{origin}: hash differs from the canonical diagram's")));
        }
        let full = low_mask(self.n);
        if (tt == full) != d.is_true() || (tt == 0) != d.is_false() {
            return Err(viol("C02", "K2", opname, step, format!("{origin}: is_true/is_false disagree with the function {tt:#x}")));
        }
        Ok(())
    }

    /// K3 over all pairs of live handles.
    fn check_k3(&self, step: usize, opname: &str) -> Result<(), Violation> {
        let hs: Vec<(&usize, &Handle<W::S>)> = self.handles.iter().collect();
        for x in 0..hs.len() {
            for y in (x + 1)..hs.len() {
                let ((i, a), (j, b)) = (hs[x], hs[y]);
                let eq = a.rc == b.rc;
                if eq != (a.tt == b.tt) {
                    return Err(viol(
                        "C02",
                        "K3",
                        opname,
                        step,
                        format!(
                            "handles #{i} ({:#x}) and #{j} ({:#x}): `==` is {eq}",
                            a.tt, b.tt
                        ),
                    ));
                }
                if eq && a.rc.get_hash() != b.rc.get_hash() {
                    return Err(viol("C02", "K3", opname, step, format!("equal handles #{i}, #{j} hash differently")));
                }
            }
        }
        Ok(())
    }

    fn after_step(&self, step: usize, opname: &str) -> Result<(), Violation> {
        match self.prop() {
            "C13" | "C14" => {
                self.check_i1(step, opname)?;
                self.check_i4(step, opname)?;
            }
            "C02" => {
                for (k, h) in self.handles.iter() {
                    // K2 needs the recorded function; a handle that changed meaning is I1's business,
                    // so the current function is used here
                    let tt = self.walk(&h.rc).map_err(|e| viol("C02", "K1", opname, step, e))?;
                    self.check_k12(&h.rc, tt, step, opname, &format!("handle #{k}"))?;
                }
                self.check_k3(step, opname)?;
            }
            _ => {}
        }
        Ok(())
    }

    // ---- raw steps -------------------------------------------------------------------------

    fn probe_raw(&mut self, op: &Op, args: &[Rc<BDD<W::S>>]) {
        let top = |d: &Rc<BDD<W::S>>| match d.as_ref() {
            BDD::Choice(_, s, _) => Some(self.names.index_of(W::idx(s))),
            _ => None,
        };
        match op {
            Op::Bin(BinKind::And | BinKind::Or, _, _) => {
                let key = match (top(&args[0]), top(&args[1])) {
                    (Some(a), Some(b)) if a < b => "probe.binop.top_lt",
                    (Some(a), Some(b)) if a > b => "probe.binop.top_gt",
                    (Some(_), Some(_)) => "probe.binop.top_eq",
                    _ => "probe.binop.const_operand",
                };
                bump(&mut self.stats, key);
                if Rc::ptr_eq(&args[0], &args[1]) {
                    bump(&mut self.stats, "fault.alias");
                    self.faults_fired += 1;
                }
            }
            Op::Exists(vs, _) | Op::All(vs, _) if self.n <= 6 => {
                let tt = self.walk(&args[0]).unwrap_or(0);
                let sup: Vec<usize> = (0..self.n)
                    .filter(|i| {
                        let m = var64(*i, self.n);
                        let sh = 1usize << *i;
                        ((tt & m) >> sh) != (tt & !m & low_mask(self.n))
                    })
                    .collect();
                if vs.is_empty() {
                    bump(&mut self.stats, "probe.quant.empty_list");
                }
                let mut sorted = vs.clone();
                sorted.sort_unstable();
                sorted.dedup();
                if sorted.len() != vs.len() {
                    bump(&mut self.stats, "probe.quant.repeated_var");
                }
                for v in vs {
                    let key = if sup.contains(v) {
                        "probe.quant.var_inside_support"
                    } else if sup.is_empty() {
                        "probe.quant.const_body"
                    } else if *v < sup[0] {
                        "probe.quant.var_above_support"
                    } else if *v > *sup.last().expect("non-empty") {
                        "probe.quant.var_below_support"
                    } else {
                        "probe.quant.var_between_support"
                    };
                    bump(&mut self.stats, key);
                }
            }
            _ => {}
        }
    }

    fn raw_step(&mut self, step_no: usize, step: &Step) -> Result<(), Violation> {
        let op = &step.op;
        let opname = op.name();
        let picked = catch(|| op.selectors().iter().map(|s| self.pick(*s)).collect::<Vec<Rc<BDD<W::S>>>>());
        let mut args: Vec<Rc<BDD<W::S>>> = match picked {
            Caught::Ok(a) => a,
            Caught::Panic(m, l) => {
                let (p, o) = match self.prop() {
                    "C19" => ("C19", "S5"),
                    "C02" => ("C02", "K2"),
                    _ => ("C13", "I4"),
                };
                return Err(viol(p, o, &format!("mk_const@{l}"), step_no, format!("fetching a leaf from the environment panicked: {m} @ {l}")));
            }
            _ => return Ok(()),
        };
        let mut foreign_used = false;
        if matches!(self.prop(), "C02" | "C13") && step.foreign != 0 {
            let names = self.names.clone();
            for (i, a) in args.iter_mut().enumerate().take(6) {
                if (step.foreign >> i) & 1 == 1 && a.is_choice() {
                    foreign_used = true;
                    if self.prop() == "C13" {
                        self.outside_used = true;
                    }
                    *a = if step.foreign & 0x80 != 0 {
                        match self.walk(a) {
                            Ok(tt) if self.n <= 6 && self.prop() == "C02" => canon64::<W::S>(tt, self.n, &|k| W::sym(&names, k)),
                            _ => plain_copy(a),
                        }
                    } else {
                        recreate(&self.env2, a)
                    };
                    bump(&mut self.stats, "fault.cross-env");
                    self.faults_fired += 1;
                }
            }
        }
        self.probe_raw(op, &args);
        let size_before = self.env.size();

        let names = self.names.clone();
        let nvars = self.n;
        let symf = move |i: usize| W::sym(&names, i);
        rsbdd::verif_hooks::reset();
        rsbdd::verif_hooks::set_budget(Some(step_budget(op)));
        let in_clone = step.foreign == 0x40 && self.prop() == "C13";
        let env = if in_clone {
            match catch(|| Rc::new((*self.env).clone())) {
                Caught::Ok(e) => {
                    bump(&mut self.stats, "fault.clone-object");
                    self.faults_fired += 1;
                    e
                }
                Caught::Panic(m, l) => return Err(viol("C13", "I4", &format!("clone@{l}"), step_no, format!("cloning the environment panicked: {m} @ {l}"))),
                _ => return Ok(()),
            }
        } else {
            Rc::clone(&self.env)
        };
        SYM_FAULT.with(|c| c.set(step.sym_fault));
        if step.foreign == 0x10 {
            crate::alloc::request_alias(crate::alloc::rc_block_size::<BDD<W::S>>(), (step_no % 3) as u32, 2 + (step_no % 2) as u32);
        }
        let shared = catch(|| apply(&env, &symf, nvars, op, &args));
        if step.foreign == 0x10 && crate::alloc::cancel_alias_placed() >= 2 {
            bump(&mut self.stats, "fault.address-alias");
            self.faults_fired += 1;
        }
        let sym_cancelled = step.sym_fault.is_some() && SYM_FAULT.with(|c| c.get()).is_none() && matches!(shared, Caught::Cancel);
        SYM_FAULT.with(|c| c.set(None));
        rsbdd::verif_hooks::set_budget(None);
        if sym_cancelled {
            bump(&mut self.stats, "fault.symbol-op-panic");
        }

        if matches!(shared, Caught::Budget) {
            self.budget_hit = true;
            return Ok(());
        }
        if let Op::Fp(_, s) = op {
            if s.reenter > 0 || s.nested {
                bump(&mut self.stats, "fault.reenter");
                self.faults_fired += 1;
            }
        }
        if matches!(shared, Caught::Cancel) {
            bump(&mut self.stats, "fault.cancel");
            self.faults_fired += 1;
            self.cancelled_before = true;
        }
        if in_clone && self.env.size() != size_before {
            return Err(viol("C13", "I2", &opname, step_no, format!("{opname} in a clone of the environment changed the size of the original ({size_before} -> {})", self.env.size())));
        }
        drop(env);
        if self.env.size() > size_before {
            bump(&mut self.stats, "probe.table.grew");
        } else {
            bump(&mut self.stats, "probe.table.hit_only");
        }

        // I2 / K: the same operation in a brand-new environment whose only history is the operands
        let want_fresh = matches!(self.prop(), "C13" | "C02");
        let mut fresh_res: Option<Caught<Res<W::S>>> = None;
        let fresh_env = BDDEnv::<W::S>::new();
        if want_fresh {
            let fargs: Vec<Rc<BDD<W::S>>> = args.iter().map(|a| recreate(&fresh_env, a)).collect();
            rsbdd::verif_hooks::set_budget(Some(step_budget(op)));
            let r = catch(|| apply(&fresh_env, &symf, nvars, op, &fargs));
            rsbdd::verif_hooks::set_budget(None);
            if matches!(r, Caught::Budget) {
                self.budget_hit = true;
                return Ok(());
            }
            fresh_res = Some(r);
        }

        if self.prop() == "C13" {
            let i5 = self.cancelled_before;
            let oracle = if i5 { "I5" } else { "I2" };
            match (&shared, fresh_res.as_ref().expect("fresh result")) {
                (Caught::Ok(a), Caught::Ok(b)) => {
                    let judged = match op {
                        Op::Size => false,
                        // two allocations of one structure are legitimate once an outside operand was captured
                        Op::Duplicates(_) | Op::NodeList(_) if self.outside_used => false,
                        _ => true,
                    };
                    if judged {
                        if let Err(e) = res_equal(a, b) {
                            return Err(viol(
                                "C13",
                                oracle,
                                &opname,
                                step_no,
                                format!("{opname}: result in the shared environment differs from the result in a fresh environment: {e}"),
                            ));
                        }
                    }
                }
                (Caught::Cancel, Caught::Cancel) => {}
                // the shared-environment run was cut short by an injected symbol fault: no result to compare
                (Caught::Cancel, _) if sym_cancelled => {}
                (Caught::Panic(m1, l1), Caught::Panic(m2, l2)) => {
                    bump(&mut self.stats, "probe.op_panics_in_both_envs");
                    if l1 != l2 || panic_kind(m1) != panic_kind(m2) {
                        return Err(viol("C13", oracle, &opname, step_no, format!("{opname}: panics differently in shared ({m1} @ {l1}) and fresh ({m2} @ {l2}) environment")));
                    }
                }
                (Caught::Panic(m, l), _) => {
                    return Err(viol(
                        "C13",
                        oracle,
                        &format!("{opname}@{l}"),
                        step_no,
                        format!("{opname}: panics in the shared environment only: {m} @ {l}"),
                    ))
                }
                (_, Caught::Panic(m, l)) => {
                    return Err(viol(
                        "C13",
                        oracle,
                        &format!("{opname}@{l}"),
                        step_no,
                        format!("{opname}: panics in a fresh environment only: {m} @ {l}"),
                    ))
                }
                _ => {
                    return Err(viol("C13", oracle, &opname, step_no, format!("{opname}: completes in one environment, is cancelled in the other")));
                }
            }
        }

        if self.prop() == "C02" {
            // K4: the result is the canonical diagram of the *expected* function (reference
            // semantics on truth tables), as the property's observation says
            if let Caught::Ok(Res::Bdd(a)) = &shared {
                let arg_tts: Option<Vec<u64>> = args.iter().map(|x| self.walk(x).ok()).collect();
                if let (Some(atts), Ok(got)) = (arg_tts, self.walk(a)) {
                    if let Some(want) = expected_tt(op, &atts, self.n) {
                        if got != want {
                            return Err(viol(
                                "C02",
                                "K4",
                                &opname,
                                step_no,
                                format!("{opname}: the result denotes {got:#x}; a reduced ordered diagram built from the expected truth table {want:#x} therefore cannot be `==` to it (operand tables {:x?})", atts),
                            ));
                        }
                    }
                }
            }
            if let (Caught::Ok(Res::Bdd(a)), Some(Caught::Ok(Res::Bdd(b)))) = (&shared, &fresh_res) {
                // K on the diagram from the *other* environment, and K3 across environments
                let ta = self.walk(a).map_err(|e| viol("C02", "K1", &opname, step_no, e))?;
                let tb = self.walk(b).map_err(|e| viol("C02", "K1", &opname, step_no, e))?;
                self.check_k12(b, tb, step_no, &opname, "result built in a fresh environment")?;
                if (a == b) != (ta == tb) {
                    return Err(viol(
                        "C02",
                        "K3",
                        &opname,
                        step_no,
                        format!("across environments: `==` is {} but functions are {ta:#x} / {tb:#x}", a == b),
                    ));
                }
            }
        }

        // bookkeeping
        match shared {
            Caught::Ok(res) => {
                match &res {
                    Res::Bdd(d) => {
                        let tt = match self.walk(d) {
                            Ok(t) => t,
                            Err(e) => {
                                let (p, o) = if self.prop() == "C02" { ("C02", "K1") } else { ("C13", "I1") };
                                return Err(viol(p, o, &opname, step_no, e));
                            }
                        };
                        self.trace.push(mix(&[step_no as u64, tt]));
                        self.states.push(mix(&[self.n as u64, tt]));
                        if tt != 0 && tt != low_mask(self.n) {
                            self.nonconst_results += 1;
                        }
                        match op {
                            Op::Un(UnKind::Model, _) => {
                                if has_negative_literal(d) {
                                    bump(&mut self.stats, "probe.model.else_arm");
                                }
                            }
                            Op::Retain(_, f) if *f != 0 => {
                                if !Rc::ptr_eq(d, &args[0]) {
                                    bump(&mut self.stats, "probe.retain.changed");
                                }
                            }
                            _ => {}
                        }
                        // C13 with an outside operand: the result may be that operand itself
                        // (pass-through cases), which no environment holds; it is judged (I2) and dropped
                        if step.keep && !((foreign_used || in_clone) && self.prop() == "C13") {
                            self.keep(Rc::clone(d), tt);
                        } else {
                            bump(&mut self.stats, "fault.noise-build");
                            self.faults_fired += 1;
                        }
                    }
                    Res::Pair(a, b) => self.trace.push(mix(&[step_no as u64, u64::from(*a), u64::from(*b)])),
                    Res::Num(x) => {
                        // sizes and counts are part of the trace; hashes too (FxHasher is seed-free)
                        self.trace.push(mix(&[step_no as u64, *x]));
                    }
                    Res::List(l) => self.trace.push(mix(&[step_no as u64, l.len() as u64])),
                    Res::Unit => {}
                }
                if !((foreign_used || in_clone) && self.prop() == "C13") {
                    if self.log.len() >= 8 {
                        self.log.remove(0);
                    }
                    self.log.push(LogEntry {
                        op: op.clone(),
                        args,
                        res,
                    });
                }
            }
            Caught::Cancel => self.trace.push(mix(&[step_no as u64, 0xCA])),
            Caught::Panic(..) => self.trace.push(mix(&[step_no as u64, 0xBAD])),
            Caught::Budget => {}
        }
        Ok(())
    }

    fn fault_step(&mut self, step_no: usize, step: &Step) -> Result<bool, Violation> {
        match &step.op {
            Op::DropHandle(s) => {
                let k = self.pick_id(*s);
                if k >= 2 && self.handles.contains_key(&k) {
                    let h = self.handles.remove(&k).expect("picked id is live");
                    self.log.retain(|e| {
                        !e.args.iter().any(|a| Rc::ptr_eq(a, &h.rc))
                            && !matches!(&e.res, Res::Bdd(r) if Rc::ptr_eq(r, &h.rc))
                    });
                    bump(&mut self.stats, "fault.drop-handle");
                    self.faults_fired += 1;
                }
                Ok(true)
            }
            Op::CloneHandle(s) => {
                let k = self.pick_id(*s);
                if let Some(h) = self.handles.get(&k) {
                    let (rc, tt) = (Rc::clone(&h.rc), h.tt);
                    self.keep(rc, tt);
                    bump(&mut self.stats, "fault.clone-handle");
                    self.faults_fired += 1;
                }
                Ok(true)
            }
            Op::AllocShift(sizes) => {
                for s in sizes {
                    self.junk.push(vec![0xA5u8; *s as usize]);
                }
                bump(&mut self.stats, "fault.alloc-shift");
                self.faults_fired += 1;
                Ok(true)
            }
            Op::FreeShift => {
                let k = self.junk.len() / 2;
                self.junk.truncate(k);
                Ok(true)
            }
            Op::ForeignFind(_) | Op::Bulk(..) if self.n > 6 => Ok(true),
            Op::ForeignFind(bits) => {
                // a node of another environment; `find`/`clean` on it panics by contract unless an
                // equal structure happens to be registered here. The caller catches and carries on.
                let other = BDDEnv::<W::S>::new();
                let names = self.names.clone();
                let tt = bits & low_mask(self.n);
                let foreign = recreate(&other, &canon64::<W::S>(tt, self.n, &|i| W::sym(&names, i)));
                let env = Rc::clone(&self.env);
                let use_clean = bits >> 63 == 1;
                let r = catch(|| if use_clean { env.clean(Rc::clone(&foreign)) } else { env.find(&foreign) });
                match r {
                    Caught::Ok(d) => {
                        bump(&mut self.stats, "probe.foreign-find.present");
                        if self.prop() == "C13" && *d != *foreign {
                            return Err(viol("C13", "I2", "find", step_no, "find/clean returned a different structure".into()));
                        }
                    }
                    Caught::Panic(..) => {
                        bump(&mut self.stats, "fault.foreign-find");
                        self.faults_fired += 1;
                        self.cancelled_before = true;
                    }
                    Caught::Budget | Caught::Cancel => {}
                }
                Ok(true)
            }
            Op::DeepChain(len) => {
                let len = *len as usize;
                let names = self.names.clone();
                let prop = self.prop().to_string();
                let build = |env: &BDDEnv<W::S>, negate_last: bool| -> Rc<BDD<W::S>> {
                    let mut acc = env.mk_const(true);
                    for i in (0..len).rev() {
                        let mut lit = env.var(W::sym(&names, i));
                        if negate_last && i == len - 1 {
                            lit = env.not(lit);
                        }
                        acc = env.and(lit, acc);
                    }
                    acc
                };
                rsbdd::verif_hooks::set_budget(Some(1 << 24));
                let env = Rc::clone(&self.env);
                let r = catch(|| {
                    let fresh = BDDEnv::<W::S>::new();
                    let a = build(&env, false);
                    let b = build(&env, true);
                    let a2 = build(&fresh, false);
                    let dup = env.duplicates(Rc::clone(&a));
                    (a == b, a.get_hash() == b.get_hash(), a == a2, a.get_hash() == a2.get_hash(), dup, a.node_list().len())
                });
                rsbdd::verif_hooks::set_budget(None);
                bump(&mut self.stats, "fault.deep-diagram");
                self.faults_fired += 1;
                match r {
                    Caught::Ok((eq_ab, hash_ab, eq_aa, hash_aa, dup, nodes)) => {
                        self.trace.push(mix(&[step_no as u64, nodes as u64, dup as u64]));
                        if prop == "C02" {
                            if eq_ab {
                                return Err(viol("C02", "K3", "deep-diagram", step_no, format!("two conjunction chains over {len} variables that differ in the deepest literal compare equal")));
                            }
                            if hash_ab {
                                return Err(viol("C02", "K5", "deep-diagram", step_no, format!("two conjunction chains over {len} variables that differ only in the deepest literal have the same 64-bit hash")));
                            }
                            if !eq_aa || !hash_aa {
                                return Err(viol("C02", "K3", "deep-diagram", step_no, format!("the same conjunction chain over {len} variables built in two environments: `==` is {eq_aa}, hashes equal is {hash_aa}")));
                            }
                        } else if prop == "C13" && !self.outside_used && dup != 0 {
                            return Err(viol("C13", "I3", "deep-diagram", step_no, format!("duplicates() of an interned conjunction chain over {len} variables ({nodes} nodes) is {dup}, not 0")));
                        }
                    }
                    Caught::Panic(m, l) => {
                        let (p, o) = if prop == "C02" { ("C02", "K2") } else { ("C13", "I2") };
                        if prop == "C02" || prop == "C13" {
                            return Err(viol(p, o, &format!("deep-diagram@{l}"), step_no, format!("building / comparing conjunction chains over {len} variables panicked: {m} @ {l}")));
                        }
                    }
                    Caught::Budget => self.budget_hit = true,
                    Caught::Cancel => {}
                }
                Ok(true)
            }
            Op::Spin(kind, count) => {
                let names = self.names.clone();
                let env = Rc::clone(&self.env);
                let (kind, count) = (*kind, *count);
                let v0 = W::sym(&names, 0);
                let r = catch(|| {
                    let t = env.mk_const(true);
                    let f = env.mk_const(false);
                    for _ in 0..count {
                        match kind {
                            0 => drop(env.exists_impl(&v0, Rc::clone(&t))),
                            1 => drop(env.all(vec![v0.clone()], Rc::clone(&t))),
                            2 => drop(env.not(Rc::clone(&t))),
                            3 => drop(env.and(Rc::clone(&t), Rc::clone(&t))),
                            4 => drop(env.or(Rc::clone(&f), Rc::clone(&f))),
                            _ => drop(env.var(v0.clone())),
                        }
                    }
                });
                if let Caught::Panic(m, l) = r {
                    if self.prop() == "C13" {
                        return Err(viol("C13", "I2", &format!("call-count@{l}"), step_no, format!("{count} consecutive cheap calls (kind {kind}) panicked: {m} @ {l}")));
                    }
                }
                bump(&mut self.stats, if count > 1 << 20 { "fault.call-count-2^32" } else { "fault.call-count-2^16" });
                self.faults_fired += 1;
                Ok(true)
            }
            Op::Bulk(seed, count) => {
                let mut st = *seed;
                let names = self.names.clone();
                let env = Rc::clone(&self.env);
                let n = self.n;
                let count = *count;
                let before = self.env.size();
                let r = catch(|| {
                    for _ in 0..count {
                        let tt = crate::prng::splitmix64(&mut st) & low_mask(n);
                        let _ = recreate(&env, &canon64::<W::S>(tt, n, &|i| W::sym(&names, i)));
                    }
                });
                if let Caught::Panic(m, l) = r {
                    if self.prop() == "C13" {
                        return Err(viol("C13", "I2", &format!("mk_choice@{l}"), step_no, format!("interning {count} diagrams panicked: {m} @ {l}")));
                    }
                }
                bump(&mut self.stats, "fault.table-growth");
                bump_by(&mut self.stats, "probe.table.nodes_added_by_growth", (self.env.size() - before) as u64);
                if self.env.size() > 4096 {
                    bump(&mut self.stats, "probe.table.above_4096_nodes");
                }
                self.faults_fired += 1;
                Ok(true)
            }
            Op::Redo(k) => {
                if self.log.is_empty() {
                    return Ok(true);
                }
                let e = &self.log[k % self.log.len()];
                if matches!(e.op, Op::Size) {
                    return Ok(true);
                }
                let names = self.names.clone();
                let nvars = self.n;
                let symf = move |i: usize| W::sym(&names, i);
                let env = Rc::clone(&self.env);
                rsbdd::verif_hooks::set_budget(Some(STEP_TICK_BUDGET));
                let r = catch(|| apply(&env, &symf, nvars, &e.op, &e.args));
                rsbdd::verif_hooks::set_budget(None);
                let opname = e.op.name();
                match r {
                    Caught::Ok(res) => {
                        bump(&mut self.stats, "fault.redo");
                        self.faults_fired += 1;
                        if self.prop() == "C13" {
                            let same = match (&res, &e.res) {
                                (Res::Bdd(a), Res::Bdd(b)) => {
                                    if a == b && !Rc::ptr_eq(a, b) {
                                        Err("equal structure but a different allocation".to_string())
                                    } else {
                                        res_equal(&res, &e.res)
                                    }
                                }
                                _ => res_equal(&res, &e.res),
                            };
                            if let Err(why) = same {
                                return Err(viol(
                                    "C13",
                                    "I3",
                                    &opname,
                                    step_no,
                                    format!("re-running {opname} on the same operands later in the history gives a different result: {why}"),
                                ));
                            }
                        }
                    }
                    Caught::Budget => self.budget_hit = true,
                    Caught::Cancel => {}
                    Caught::Panic(m, l) => {
                        if self.prop() == "C13" {
                            return Err(viol("C13", "I3", &format!("{opname}@{l}"), step_no, format!("re-running {opname} panics: {m} @ {l}")));
                        }
                    }
                }
                Ok(true)
            }
            _ => Ok(false),
        }
    }

    fn run(mut self) -> RunOutcome {
        let mut out = RunOutcome::default();
        let plan = self.plan;
        let plan_bytes = serde_json::to_vec(plan).expect("plan serialises");
        out.plan_digest = digest_bytes(&plan_bytes);
        let mut violation: Option<Violation> = None;
        if let (Some(what), "C13") = (&self.initial, self.prop()) {
            violation = Some(viol("C13", "I4", "new-environment", 0, what.clone()));
        }
        if plan.env_default {
            bump(&mut self.stats, "fault.env-default");
        }
        let mut ticks = 0u64;
        let started = std::time::Instant::now();
        for (i, step) in plan.steps.iter().enumerate() {
            if violation.is_some() {
                break;
            }
            self.cur_step = i;
            // safety net only (never reached on the unchanged tree): a run that has been going for
            // minutes of wall-clock time is abandoned unjudged instead of stalling the batch
            if i % 16 == 0 && started.elapsed().as_secs() > 90 {
                out.unjudged = Some("wall-clock watchdog (90 s) — run abandoned".into());
                break;
            }
            if matches!(step.op, Op::Nop) {
                continue;
            }
            if let Some(c) = self.last_client {
                if c != step.client {
                    self.interleavings += 1;
                }
            }
            self.last_client = Some(step.client);
            bump(&mut self.stats, &format!("op.{}", step.op.name()));
            let r = (|| -> Result<(), Violation> {
                if self.fault_step(i, step)? {
                    return Ok(());
                }
                if step.op.is_raw() || matches!(step.op, Op::Size) {
                    return self.raw_step(i, step);
                }
                W::world_step(&mut self, i, step)?;
                Ok(())
            })();
            ticks += rsbdd::verif_hooks::ticks();
            rsbdd::verif_hooks::reset();
            if self.budget_hit {
                out.unjudged = Some("tick budget exhausted".into());
                break;
            }
            let r = r.and_then(|_| self.after_step(i, &step.op.name()));
            out.steps += 1;
            if let Err(v) = r {
                violation = Some(v);
                break;
            }
        }
        out.ticks = ticks;
        bump_by(&mut self.stats, "interleave", self.interleavings);
        out.nontrivial = self.interleavings >= 1 && self.faults_fired >= 1 && self.nonconst_results >= 1;
        out.trace_digest = mix(&self.trace);
        out.state_digests = std::mem::take(&mut self.states);
        out.state_digests.push(mix(&[0x51, self.env.size() as u64]));
        if let Some(v) = violation {
            // only the property under check is reported by this run
            if v.property == self.plan.property || (self.plan.property == "C14" && v.property == "C13") {
                out.violations.push(v);
            }
        }
        out.stats = std::mem::take(&mut self.stats);
        out
    }
}

pub fn mask_bits(e: usize, b: usize) -> usize {
    if b >= usize::BITS as usize {
        e
    } else {
        e & ((1usize << b) - 1)
    }
}

fn set_universe_of(plan: &EnvPlan) -> Vec<usize> {
    let b = plan.set_bits;
    if b <= 8 {
        return (0..(1usize << b)).collect();
    }
    let ones = mask_bits(usize::MAX, b);
    let mut v: Vec<usize> = vec![0, 1, 2, 3, ones, ones - 1, ones >> 1, (ones >> 1) + 1, mask_bits(0x5555_5555_5555_5555, b), mask_bits(0xAAAA_AAAA_AAAA_AAAA, b)];
    for st in &plan.steps {
        match &st.op {
            Op::SetFromElement(e) | Op::SetInsert(_, e) | Op::SetContains(_, e) => v.push(mask_bits(*e, b)),
            _ => {}
        }
    }
    v.sort_unstable();
    v.dedup();
    v
}

fn describe<S: BDDSymbol>(n: &BDD<S>) -> String {
    match n {
        BDD::True => "true leaf".into(),
        BDD::False => "false leaf".into(),
        BDD::Choice(_, s, _) => format!("test on {s}"),
    }
}

fn panic_kind(m: &str) -> &str {
    m.split(':').next().unwrap_or(m)
}

fn has_negative_literal<S: BDDSymbol>(d: &BDD<S>) -> bool {
    match d {
        BDD::Choice(t, _, f) => t.is_false() || has_negative_literal(t) || has_negative_literal(f),
        _ => false,
    }
}

// ---- U-world: BDDSet clients ------------------------------------------------------------------

impl<'p> Exec<'p, UWorld> {
    fn set_members(&self, d: &BDD<usize>) -> Result<BTreeSet<usize>, String> {
        // read path that does not call `contains`: walk the diagram under var i := e.categorize(i)
        let b = self.plan.set_bits;
        let mut m = BTreeSet::new();
        for e in self.set_universe.iter().copied() {
            let mut node = d;
            loop {
                match node {
                    BDD::True => {
                        m.insert(e);
                        break;
                    }
                    BDD::False => break,
                    BDD::Choice(t, s, f) => {
                        if *s >= b {
                            return Err(format!("set diagram tests variable {s} outside its {b} bits"));
                        }
                        node = if e.categorize(*s) { t } else { f };
                    }
                }
            }
        }
        Ok(m)
    }

    fn check_sets(&self, step: usize, opname: &str) -> Result<(), Violation> {
        for (k, s) in self.ext.iter() {
            let d = match s.set.bdd.try_borrow() {
                Ok(d) => Rc::clone(&d),
                Err(_) => return Err(viol("C19", "S5", opname, step, format!("set #{k} is left mutably borrowed"))),
            };
            let got = self.set_members(&d).map_err(|e| viol("C19", "S1", opname, step, e))?;
            let want = s.model.members(&self.set_universe);
            if got != want {
                return Err(viol(
                    "C19",
                    "S1",
                    opname,
                    step,
                    format!("set #{k} ({} bits) after {opname}: members {:x?}, reference set {:x?}", self.plan.set_bits, got, want),
                ));
            }
        }
        Ok(())
    }

    /// newest live set created at or before step (sel mod current step), else the oldest one
    fn set_id(&self, sel: usize) -> Option<usize> {
        let target = sel % (self.cur_step + 1);
        self.ext
            .range(..=target)
            .next_back()
            .map(|(k, _)| *k)
            .or_else(|| self.ext.keys().next().copied())
    }

    fn set_step(&mut self, step_no: usize, step: &Step) -> Result<bool, Violation> {
        let b = self.plan.set_bits;
        let opname = step.op.name();
        let c19 = self.prop() == "C19";
        let nsets = self.ext.len();
        let new_id = self.cur_step;
        match &step.op {
            Op::SetNew => {
                if nsets < 4 {
                    let env = Rc::clone(&self.env);
                    match catch(|| BDDSet::with_env(b, &env)) {
                        Caught::Ok(set) => {
                            self.ext.insert(new_id, SetSlot { set, model: SetModel::default() });
                        }
                        Caught::Panic(m, l) if c19 => return Err(viol("C19", "S5", &format!("{opname}@{l}"), step_no, format!("{opname} panicked: {m} @ {l}"))),
                        _ => {}
                    }
                }
            }
            Op::SetFromElement(e) => {
                if nsets < 4 {
                    let env = Rc::clone(&self.env);
                    let e = mask_bits(*e, b);
                    match catch(|| BDDSet::from_element(e, b, &env)) {
                        Caught::Ok(set) => {
                            self.ext.insert(new_id, SetSlot { set, model: SetModel::of([e]) });
                        }
                        Caught::Panic(m, l) if c19 => return Err(viol("C19", "S5", &format!("{opname}@{l}"), step_no, format!("{opname} panicked: {m} @ {l}"))),
                        _ => {}
                    }
                }
            }
            Op::SetFromBdd(sel) => {
                if nsets < 4 {
                    let Caught::Ok(h) = catch(|| self.pick(*sel)) else {
                        return Err(viol("C19", "S5", "mk_const", step_no, "fetching a leaf from the environment panicked".into()));
                    };
                    if b > 8 {
                        // the members of an arbitrary diagram over a wide universe cannot be listed
                        return Ok(true);
                    }
                    if let Ok(members) = self.set_members(&h) {
                        let model = SetModel::of(members);
                        let set = BDDSet::from_bdd(&h, b, &self.env);
                        self.ext.insert(new_id, SetSlot { set, model });
                        bump(&mut self.stats, "probe.set.from_bdd");
                    }
                }
            }
            Op::SetToHandle(s) => {
                if let Some(k) = self.set_id(*s) {
                    let d = Rc::clone(&self.ext[&k].set.bdd.borrow());
                    if let Ok(tt) = self.walk(&d) {
                        self.keep(d, tt);
                    }
                }
            }
            Op::SetClone(s) => {
                if let (Some(k), true) = (self.set_id(*s), nsets < 4) {
                    let slot = &self.ext[&k];
                    let (src, model) = (&slot.set, slot.model.clone());
                    match catch(|| src.clone()) {
                        Caught::Ok(set) => {
                            self.ext.insert(new_id, SetSlot { set, model });
                            bump(&mut self.stats, "fault.clone-object");
                            self.faults_fired += 1;
                        }
                        Caught::Panic(m, l) if c19 => return Err(viol("C19", "S5", &format!("{opname}@{l}"), step_no, format!("{opname} panicked: {m} @ {l}"))),
                        _ => {}
                    }
                }
            }
            Op::SetDrop(s) => {
                if let (Some(k), true) = (self.set_id(*s), nsets > 1) {
                    self.ext.remove(&k);
                    bump(&mut self.stats, "fault.drop-handle");
                    self.faults_fired += 1;
                }
            }
            Op::SetInsert(..) | Op::SetBin(..) | Op::SetEmpty(_) | Op::SetUniverse(_) | Op::SetContains(..) => {
                let (s_sel, o_sel) = match &step.op {
                    Op::SetInsert(s, _) | Op::SetEmpty(s) | Op::SetUniverse(s) | Op::SetContains(s, _) => (*s, *s),
                    Op::SetBin(_, s, o) => (*s, *o),
                    _ => unreachable!(),
                };
                let (Some(k), Some(j)) = (self.set_id(s_sel), self.set_id(o_sel)) else {
                    return Ok(true);
                };
                let before: Vec<(usize, BTreeSet<usize>)> = if c19 {
                    self.ext
                        .iter()
                        .map(|(id, s)| (*id, self.set_members(&s.set.bdd.borrow()).unwrap_or_default()))
                        .collect()
                } else {
                    Vec::new()
                };
                let sets = &self.ext;
                let mut expect_contains: Option<bool> = None;
                let mut aliased = false;
                let r = match &step.op {
                    Op::SetInsert(_, e) => {
                        let e = mask_bits(*e, b);
                        catch(|| {
                            sets[&k].set.insert(e);
                            None
                        })
                    }
                    Op::SetBin(kind, _, _) => {
                        aliased = k == j;
                        catch(|| {
                            match kind {
                                SetBinKind::Union => sets[&k].set.union(&sets[&j].set),
                                SetBinKind::Intersect => sets[&k].set.intersect(&sets[&j].set),
                                SetBinKind::Complement => sets[&k].set.complement(&sets[&j].set),
                            };
                            None
                        })
                    }
                    Op::SetEmpty(_) => catch(|| {
                        sets[&k].set.empty();
                        None
                    }),
                    Op::SetUniverse(_) => catch(|| {
                        sets[&k].set.universe();
                        None
                    }),
                    Op::SetContains(_, e) => {
                        let e = mask_bits(*e, b);
                        expect_contains = Some(sets[&k].model.contains(e));
                        if step.foreign == 0x20 {
                            // queries do not modify the set: a reader of its diagram may be active
                            let held = sets[&k].set.bdd.borrow();
                            let r = catch(|| Some(sets[&k].set.contains(e)));
                            drop(held);
                            bump(&mut self.stats, "fault.borrow-held");
                            self.faults_fired += 1;
                            r
                        } else {
                            catch(|| Some(sets[&k].set.contains(e)))
                        }
                    }
                    _ => unreachable!(),
                };
                if aliased {
                    bump(&mut self.stats, "fault.alias");
                    self.faults_fired += 1;
                }
                // reference model
                match &step.op {
                    Op::SetInsert(_, e) => {
                        self.ext.get_mut(&k).expect("live set").model.insert(mask_bits(*e, b));
                    }
                    Op::SetBin(kind, _, _) => {
                        let other = self.ext[&j].model.clone();
                        let m = &mut self.ext.get_mut(&k).expect("live set").model;
                        *m = match kind {
                            SetBinKind::Union => m.union(&other),
                            SetBinKind::Intersect => m.intersect(&other),
                            SetBinKind::Complement => m.difference(&other),
                        };
                    }
                    Op::SetEmpty(_) => self.ext.get_mut(&k).expect("live set").model.clear(),
                    Op::SetUniverse(_) => self.ext.get_mut(&k).expect("live set").model.fill(),
                    _ => {}
                }
                self.nonconst_results += 1;
                if !c19 {
                    return Ok(true);
                }
                match r {
                    Caught::Ok(answer) => {
                        if let (Some(got), Some(want)) = (answer, expect_contains) {
                            if got != want {
                                return Err(viol("C19", "S2", &opname, step_no, format!("contains answered {got}, the reference set says {want}")));
                            }
                        }
                        if expect_contains.is_some() {
                            // S3: queries are pure
                            for (id, was) in &before {
                                let now = self.set_members(&self.ext[id].set.bdd.borrow()).unwrap_or_default();
                                if now != *was {
                                    return Err(viol(
                                        "C19",
                                        "S3",
                                        &opname,
                                        step_no,
                                        format!("a contains query changed set #{id} from {:?} to {:?}", was, now),
                                    ));
                                }
                            }
                        }
                    }
                    Caught::Panic(m, l) => {
                        let oracle = if aliased { "S4" } else { "S5" };
                        return Err(viol("C19", oracle, &format!("{opname}@{l}"), step_no, format!("{opname} panicked{}: {m} @ {l}", if aliased { " with the same set as both operands" } else { "" })));
                    }
                    Caught::Budget => self.budget_hit = true,
                    Caught::Cancel => {}
                }
            }
            _ => return Ok(true),
        }
        // very long histories (marathon runs) are checked at queries, every 64th step and at the end
        let long = self.plan.steps.len() > 500;
        let check_now = !long || matches!(step.op, Op::SetContains(..)) && step_no % 8 == 0 || step_no % 64 == 0 || step_no + 1 == self.plan.steps.len();
        if c19 && check_now {
            self.check_sets(step_no, &opname)?;
        }
        if long && !check_now {
            return Ok(true);
        }
        if long {
            bump(&mut self.stats, "probe.marathon_checkpoint");
        }
        // what the sets actually contain is part of the run's trace (read off the diagrams)
        let mut parts = vec![step_no as u64];
        for (id, sl) in &self.ext {
            parts.push(*id as u64);
            let members = self.set_members(&sl.set.bdd.borrow()).unwrap_or_default();
            parts.push(members.iter().fold(0u64, |acc, e| acc.rotate_left(7) ^ (*e as u64).wrapping_add(1)));
        }
        self.trace.push(mix(&parts));
        // the state measure ignores when the state was reached and which ids the sets carry
        let mut contents: Vec<u64> = parts[1..].chunks(2).map(|c| c[1]).collect();
        contents.sort_unstable();
        contents.insert(0, self.plan.set_bits as u64);
        self.states.push(mix(&contents));
        Ok(true)
    }
}

// ---- N-world: formula clients -----------------------------------------------------------------

impl<'p> Exec<'p, NWorld> {
    fn ordering(&self) -> Vec<NamedSymbol> {
        (0..self.names.names.len()).map(|i| NWorld::sym(&self.names, i)).collect()
    }

    fn formula_step(&mut self, step_no: usize, step: &Step) -> Result<bool, Violation> {
        let opname = step.op.name();
        match &step.op {
            Op::Formula(f, pseed, noise) | Op::FormulaOwnOrder(f, pseed, noise) => {
                let own_order = matches!(step.op, Op::FormulaOwnOrder(..));
                let mut prng = Prng::new(*pseed);
                let text = Printer::noisy(&mut prng, *noise).print(f);
                let ordering: Option<Vec<NamedSymbol>> = if own_order { None } else { Some(self.ordering()) };
                let env = Rc::clone(&self.env);
                rsbdd::verif_hooks::set_budget(Some(STEP_TICK_BUDGET));
                let shared = catch(|| {
                    let mut rd = BufReader::new(text.as_bytes());
                    ParsedFormula::new_with_env(env, &mut rd, ordering.clone()).map(|pf| {
                        let r = pf.eval();
                        (pf, r)
                    })
                });
                rsbdd::verif_hooks::set_budget(None);
                let (pf, res) = match shared {
                    Caught::Ok(Ok(x)) => x,
                    Caught::Ok(Err(_)) => {
                        bump(&mut self.stats, "probe.formula.rejected");
                        return Ok(true);
                    }
                    Caught::Budget => {
                        self.budget_hit = true;
                        return Ok(true);
                    }
                    Caught::Cancel => return Ok(true),
                    Caught::Panic(m, l) => {
                        if self.prop() == "C13" {
                            return Err(viol("C13", "I2", &format!("{opname}@{l}"), step_no, format!("evaluating `{text}` in the shared environment panicked: {m} @ {l}")));
                        }
                        return Ok(true);
                    }
                };
                bump(&mut self.stats, "probe.formula.evaluated");
                if matches!(self.prop(), "C13" | "C02") {
                    rsbdd::verif_hooks::set_budget(Some(STEP_TICK_BUDGET));
                    let fresh = catch(|| {
                        let mut rd = BufReader::new(text.as_bytes());
                        ParsedFormula::new(&mut rd, ordering.clone()).map(|pf| pf.eval())
                    });
                    rsbdd::verif_hooks::set_budget(None);
                    match fresh {
                        Caught::Ok(Ok(fr)) => {
                            if self.prop() == "C13" {
                                let oracle = if self.cancelled_before { "I5" } else { "I2" };
                                if let Err(e) = res_equal(&Res::Bdd(Rc::clone(&res)), &Res::Bdd(Rc::clone(&fr))) {
                                    return Err(viol("C13", oracle, &opname, step_no, format!("`{text}` evaluates differently in the shared and in a fresh environment: {e}")));
                                }
                            } else {
                                let tb = self.walk(&fr).map_err(|e| viol("C02", "K1", &opname, step_no, e))?;
                                self.check_k12(&fr, tb, step_no, &opname, "formula evaluated in a fresh environment")?;
                            }
                        }
                        Caught::Budget => {
                            self.budget_hit = true;
                            return Ok(true);
                        }
                        Caught::Panic(m, l) if self.prop() == "C13" => {
                            return Err(viol("C13", "I2", &format!("{opname}@{l}"), step_no, format!("`{text}` panics in a fresh environment only: {m} @ {l}")));
                        }
                        _ => {}
                    }
                }
                let tt = match self.walk(&res) {
                    Ok(t) => t,
                    Err(e) => {
                        let (p, o) = if self.prop() == "C02" { ("C02", "K1") } else { ("C13", "I1") };
                        return Err(viol(p, o, &opname, step_no, e));
                    }
                };
                self.trace.push(mix(&[step_no as u64, tt]));
                self.states.push(mix(&[self.n as u64, tt]));
                if tt != 0 && tt != low_mask(self.n) {
                    self.nonconst_results += 1;
                }
                if step.keep {
                    self.keep(Rc::clone(&res), tt);
                }
                if self.ext.formulas.len() >= 6 {
                    self.ext.formulas.remove(0);
                }
                self.ext.formulas.push((pf, res));
            }
            Op::ReEval(k) => {
                if self.ext.formulas.is_empty() {
                    return Ok(true);
                }
                let (pf, old) = &self.ext.formulas[k % self.ext.formulas.len()];
                rsbdd::verif_hooks::set_budget(Some(STEP_TICK_BUDGET));
                let r = catch(|| pf.eval());
                rsbdd::verif_hooks::set_budget(None);
                match r {
                    Caught::Ok(new) => {
                        bump(&mut self.stats, "fault.redo");
                        self.faults_fired += 1;
                        if self.prop() == "C13" && !(new == *old && Rc::ptr_eq(&new, old)) {
                            return Err(viol(
                                "C13",
                                "I3",
                                &opname,
                                step_no,
                                "evaluating the same parsed formula again in the shared environment gives a different diagram / allocation".into(),
                            ));
                        }
                    }
                    Caught::Budget => self.budget_hit = true,
                    Caught::Panic(m, l) if self.prop() == "C13" => {
                        return Err(viol("C13", "I3", &format!("{opname}@{l}"), step_no, format!("re-evaluation panicked: {m} @ {l}")));
                    }
                    _ => {}
                }
            }
            Op::FreeIndexPanic(k) => {
                if self.ext.formulas.is_empty() {
                    return Ok(true);
                }
                let (pf, _) = &self.ext.formulas[k % self.ext.formulas.len()];
                let ghost = NamedSymbol {
                    name: Rc::new("__not_a_variable".to_string()),
                    id: usize::MAX - 3,
                };
                match catch(|| pf.to_free_index(&ghost)) {
                    Caught::Panic(..) => {
                        bump(&mut self.stats, "fault.cancel");
                        self.faults_fired += 1;
                        self.cancelled_before = true;
                    }
                    _ => bump(&mut self.stats, "probe.to_free_index_of_ghost_returned"),
                }
            }
            Op::Convert(sel) => {
                let Some(h) = self.handles.get(&self.pick_id(*sel)) else {
                    return Ok(true);
                };
                let conv: BDD<usize> = BDD::<usize>::from(h.rc.as_ref().clone());
                bump(&mut self.stats, "probe.convert");
                if self.prop() == "C02" {
                    if let Err(e) = ordered_reduced(&conv) {
                        return Err(viol("C02", "K1", &opname, step_no, format!("converted diagram: {e}")));
                    }
                    let syms = Rc::clone(&self.names);
                    let tt = walk64(&conv, self.n, &|s: &usize| syms.index_of(*s)).map_err(|e| viol("C02", "K1", &opname, step_no, e))?;
                    let c = canon64::<usize>(tt, self.n, &|i| syms.id(i));
                    if *c != conv || c.get_hash() != conv.get_hash() || tt != h.tt {
                        return Err(viol("C02", "K2", &opname, step_no, format!("converted diagram is not the canonical diagram of {:#x}", h.tt)));
                    }
                    for (other, ott) in &self.ext.converted {
                        if (**other == conv) != (*ott == tt) {
                            return Err(viol("C02", "K3", &opname, step_no, "two converted diagrams: `==` disagrees with function equality".into()));
                        }
                    }
                    if self.ext.converted.len() < 8 {
                        self.ext.converted.push((Rc::new(conv), tt));
                    }
                }
            }
            _ => {}
        }
        Ok(true)
    }
}

// ---------------------------------------------------------------------------------------------
// Entry points
// ---------------------------------------------------------------------------------------------

/// A plan is well-formed when every variable / name it mentions is one of the run's variables
/// (minimisation must not turn a violation into an artefact of an ill-formed plan).
pub fn plan_valid(plan: &EnvPlan) -> bool {
    let names = &plan.names[..plan.nvars.min(plan.names.len())];
    plan.nvars >= 1
        && plan.names.len() >= plan.nvars
        && plan.steps.iter().all(|s| match &s.op {
            Op::Var(i) | Op::Infer(_, i) => *i < plan.nvars,
            Op::Formula(f, _, _) | Op::FormulaOwnOrder(f, _, _) => f.names_in_text_order().iter().all(|n| names.contains(n)),
            _ => true,
        })
}

pub fn execute(plan: &EnvPlan) -> RunOutcome {
    rsbdd::verif_hooks::reset();
    if plan.world == WorldKind::U && (plan.set_bits > 64 || plan.set_bits2 != 0) {
        return super::widesets::execute(plan);
    }
    match plan.world {
        WorldKind::U => Exec::<UWorld>::new(plan).run(),
        WorldKind::N => Exec::<NWorld>::new(plan).run(),
        WorldKind::F => Exec::<FWorld>::new(plan).run(),
    }
}

pub fn tier(thorough: bool) -> Tier {
    if thorough {
        Tier {
            max_steps: 60,
            max_clients: 4,
            wrap32: true,
        }
    } else {
        Tier {
            max_steps: 40,
            max_clients: 3,
            wrap32: false,
        }
    }
}

/// Minimise a failing plan: ddmin over steps, then per-step simplification; a candidate is kept
/// only when the same oracle id fires.
pub fn minimise(plan: &EnvPlan, v: &Violation) -> (EnvPlan, Violation) {
    let mut best = plan.clone();
    let mut best_v = v.clone();
    let mut budget = 4000usize;
    // wall-clock safety net for very long plans (marathon runs): once it expires no further
    // candidate is tried; what has been reduced so far is still a failing plan. The verdict
    // never depends on it, only how small the replay file gets.
    // The limit covers all minimisations of one check together: a tree that violates in ten classes
    // with slow runs would otherwise spend forty minutes shrinking.
    static FIRST: std::sync::OnceLock<std::time::Instant> = std::sync::OnceLock::new();
    let started = *FIRST.get_or_init(std::time::Instant::now);
    let same = |p: &EnvPlan| -> Option<Violation> {
        if !plan_valid(p) || started.elapsed().as_secs() > 240 {
            return None;
        }
        let out = execute(p);
        out.violations
            .into_iter()
            .find(|x| x.property == v.property && x.oracle == v.oracle)
    };
    // cut everything after the failing step
    if best_v.step < best.steps.len() {
        let mut cand = best.clone();
        cand.steps.truncate(best_v.step + 1);
        if let Some(nv) = same(&cand) {
            best = cand;
            best_v = nv;
        }
    }
    // ddmin over step *positions*: a removed step is blanked (Op::Nop) so that step numbers,
    // and with them every operand selector, keep their meaning
    let positions: Vec<usize> = (0..best.steps.len()).filter(|i| !matches!(best.steps[*i].op, Op::Nop)).collect();
    let blank = |keep: &[usize]| -> EnvPlan {
        let mut p = best.clone();
        for (i, st) in p.steps.iter_mut().enumerate() {
            if !keep.contains(&i) {
                st.op = Op::Nop;
            }
        }
        p
    };
    let kept = crate::core::ddmin(positions, &mut budget, &mut |cand: &[usize]| same(&blank(cand)).is_some());
    best = blank(&kept);
    if let Some(nv) = same(&best) {
        best_v = nv;
    }
    // try to drop the blanks altogether (renumbers steps; kept only if the same oracle still fires)
    {
        let mut p = best.clone();
        p.steps.retain(|s| !matches!(s.op, Op::Nop));
        if let Some(nv) = same(&p) {
            best = p;
            best_v = nv;
        } else {
            // at least drop trailing blanks
            while matches!(best.steps.last().map(|s| &s.op), Some(Op::Nop)) {
                best.steps.pop();
            }
        }
    }
    // per-step simplification
    let mut improved = true;
    while improved && budget > 0 {
        improved = false;
        for i in 0..best.steps.len() {
            for cand_op in simpler_ops(&best.steps[i].op) {
                if budget == 0 {
                    break;
                }
                budget -= 1;
                let mut p = best.clone();
                p.steps[i].op = cand_op;
                if p == best {
                    continue;
                }
                if let Some(nv) = same(&p) {
                    best = p;
                    best_v = nv;
                    improved = true;
                    break;
                }
            }
        }
        // fewer variables / clients
        if best.nvars > 1 {
            let mut p = best.clone();
            p.nvars -= 1;
            p.names.truncate(p.nvars);
            budget = budget.saturating_sub(1);
            if let Some(nv) = same(&p) {
                best = p;
                best_v = nv;
                improved = true;
            }
        }
    }
    for s in &mut best.steps {
        s.client = s.client.min(best.clients.saturating_sub(1));
    }
    (best, best_v)
}

fn simpler_ops(op: &Op) -> Vec<Op> {
    let small = |s: &usize| -> Vec<usize> {
        let mut v = vec![0usize, 1, 2, 3];
        v.retain(|x| x != s);
        if *s > 3 {
            v
        } else {
            v.into_iter().filter(|x| x < s).collect()
        }
    };
    let mut out = Vec::new();
    match op {
        Op::Bin(k, a, b) => {
            for x in small(a) {
                out.push(Op::Bin(*k, x, *b));
            }
            for x in small(b) {
                out.push(Op::Bin(*k, *a, x));
            }
            if !matches!(k, BinKind::And) {
                out.push(Op::Bin(BinKind::And, *a, *b));
            }
        }
        Op::Un(k, a) => {
            for x in small(a) {
                out.push(Op::Un(*k, x));
            }
        }
        Op::Ite(a, b, c) => {
            out.push(Op::Bin(BinKind::And, *a, *b));
            out.push(Op::Bin(BinKind::And, *a, *c));
        }
        Op::Exists(vs, a) | Op::All(vs, a) => {
            for i in 0..vs.len() {
                let mut v2 = vs.clone();
                v2.remove(i);
                out.push(if matches!(op, Op::Exists(..)) { Op::Exists(v2, *a) } else { Op::All(v2, *a) });
            }
        }
        Op::CountN(k, l, n) => {
            for i in 0..l.len() {
                let mut l2 = l.clone();
                l2.remove(i);
                out.push(Op::CountN(*k, l2, *n));
            }
            if *n != 0 {
                out.push(Op::CountN(*k, l.clone(), n - n.signum()));
            }
        }
        Op::CountCmp(k, a, b) => {
            for i in 0..a.len() {
                let mut a2 = a.clone();
                a2.remove(i);
                out.push(Op::CountCmp(*k, a2, b.clone()));
            }
            for i in 0..b.len() {
                let mut b2 = b.clone();
                b2.remove(i);
                out.push(Op::CountCmp(*k, a.clone(), b2));
            }
        }
        Op::Fp(a, s) => {
            let mut s2 = s.clone();
            if s2.reenter > 0 {
                s2.reenter = 0;
                out.push(Op::Fp(*a, s2.clone()));
            }
            if s2.nested {
                s2.nested = false;
                out.push(Op::Fp(*a, s2.clone()));
            }
            if s.cancel_at.is_some() {
                let mut s3 = s.clone();
                s3.cancel_at = None;
                out.push(Op::Fp(*a, s3));
            }
            if s.kind != ScriptKind::OrG {
                let mut s4 = s.clone();
                s4.kind = ScriptKind::OrG;
                s4.chain.clear();
                out.push(Op::Fp(*a, s4));
            }
        }
        Op::Formula(f, seed, noise) => {
            if *noise > 0 {
                out.push(Op::Formula(f.clone(), *seed, 0));
            }
            for c in fast::shrink_candidates(f).into_iter().take(60) {
                out.push(Op::Formula(c, *seed, *noise));
            }
        }
        Op::SetInsert(s, e) => {
            if *s > 0 {
                out.push(Op::SetInsert(0, *e));
            }
            if *e > 0 {
                out.push(Op::SetInsert(*s, e - 1));
            }
        }
        Op::SetContains(s, e) => {
            if *s > 0 {
                out.push(Op::SetContains(0, *e));
            }
            if *e > 0 {
                out.push(Op::SetContains(*s, e - 1));
            }
        }
        Op::SetBin(k, a, b) => {
            if *a > 1 {
                out.push(Op::SetBin(*k, a % 2, *b));
            }
            if *b > 1 {
                out.push(Op::SetBin(*k, *a, b % 2));
            }
        }
        _ => {}
    }
    out
}
