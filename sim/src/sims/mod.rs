pub mod envsim;
pub mod envsim_driver;
pub mod iosim;
pub mod iosim_driver;
pub mod rgsim;
pub mod rgsim_driver;
pub mod dotsim;
pub mod dotsim_driver;
