pub mod envsim;
pub mod envsim_driver;
