pub mod envsim;
pub mod envsim_driver;
pub mod iosim;
pub mod iosim_driver;
