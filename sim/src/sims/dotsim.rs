//! dotsim — Graphviz exports under writer faults and allocator nondeterminism (C14).
//!
//! One run builds a diagram inside a long-lived environment with seeded prior history and
//! `alloc-shift` churn (node ids in the DOT text are allocation addresses), exports it through
//! clean and fault-injecting writers, reads the text back and judges D1-D6 of DESIGN.md 4.7.
//! Optionally a formula's syntax tree is exported and read back as a term.

use std::io::BufReader;
use std::rc::Rc;

use rsbdd::bdd::{BDDEnv, BDD};
use rsbdd::bdd_io::BDDGraph;
use rsbdd::parser::{BinaryOperator, CountableOperator, ParsedFormula, QuantifierType, SymbolicBDD};
use rsbdd::parser_io::SymbolicParseTree;
use rsbdd::{BDDSymbol, NamedSymbol, TruthTableEntry};
use serde::{Deserialize, Serialize};

use crate::core::{bump, bump_by, catch, Caught, RunOutcome, Stats, Violation};
use crate::faultio::{gen_io_plan, FaultyWriter, IoPlan};
use crate::model::canon::{canon_tt, distinct_choice_nodes, recreate, walk_tt};
use crate::model::tt::TT;
use crate::model::dotread::{parse_bdd_dot, parse_dot, DotGraph, Term};
use crate::model::fast::{self, Printer, F};
use crate::model::tt::low_mask;
use crate::prng::{digest_bytes, mix, Prng};

pub const SIM_ID: u64 = 5;

#[derive(Clone, Debug, PartialEq, Eq, Serialize, Deserialize)]
pub struct DotPlan {
    /// true: symbols are NamedSymbol (names may need escaping); false: usize
    pub named: bool,
    pub nvars: usize,
    pub names: Vec<String>,
    /// functions built (and kept alive) in the environment before the target: the history
    pub history: Vec<u64>,
    /// junk allocation sizes made before / between builds (alloc-shift)
    pub alloc_shift: Vec<u32>,
    /// the exported function
    pub target: u64,
    /// construction route of the target: 0 = bottom-up mk_choice, 1 = Shannon expansion with and/or/not
    pub route: u8,
    pub write_plan: IoPlan,
    /// optional syntax tree export: formula, print seed, noise
    pub formula: Option<(F, u64, u8)>,
    /// `clone-object`: after this many history builds the environment is cloned; the rest of the
    /// history and the target are built in the copy (the original stays alive)
    #[serde(default)]
    pub clone_at: Option<usize>,
    /// `address-alias`: while the target is built, after `skip` node allocations the next `want`
    /// nodes are placed at addresses that agree in their low 32 bits (a heap wider than 4 GiB)
    #[serde(default)]
    pub alias: Option<(u32, u32)>,
}

const WEIRD_NAMES: [&str; 10] = [
    "q\"uote", "back\\slash", "new\nline", "", "sp ace", "tab\t", "ü→λ", "a]; n_true -> n_false[label=\"T", "true", "false",
];

pub fn gen_plan(rng: &mut Prng) -> DotPlan {
    let named = rng.coin();
    // one run in twelve exports a big diagram (7-10 variables, hundreds of nodes)
    let nvars = if rng.chance(1, 30) { rng.range(7, 10) } else { rng.range(1, 6) };
    let mut names: Vec<String> = fast::NAME_POOL.iter().map(|s| s.to_string()).collect();
    rng.shuffle(&mut names);
    names.truncate(nvars);
    if named {
        let k = rng.below(3);
        for _ in 0..k {
            let i = rng.below(nvars);
            let w = rng.pick(&WEIRD_NAMES).to_string();
            if !names.contains(&w) {
                names[i] = w;
            }
        }
    }
    let full = low_mask(nvars);
    let func = |rng: &mut Prng| -> u64 {
        match rng.below(8) {
            0 => 0,
            1 => full,
            2 => rng.next_u64() & rng.next_u64() & full,
            3 => (rng.next_u64() | rng.next_u64()) & full,
            _ => rng.next_u64() & full,
        }
    };
    let nh = rng.range(0, 6);
    let history: Vec<u64> = (0..nh).map(|_| func(rng)).collect();
    let na = rng.range(0, 5);
    let alloc_shift = (0..na).map(|_| rng.range(1, 5000) as u32).collect();
    let formula = if rng.chance(1, 2) {
        let cfg = fast::gen_cfg(rng, 5, 5);
        let mut f = fast::gen_formula(rng, &cfg);
        // repeated sub-terms and near-twins are what makes sharing in the export interesting
        match rng.below(4) {
            0 => f = F::Bin(fast::BinOp::Or, Box::new(f.clone()), Box::new(F::Not(Box::new(f)))),
            1 | 2 => f = fast::with_near_twin(rng, &f),
            _ => {}
        }
        if rng.chance(1, 6) {
            // `long-list`: a quantifier that binds many variables (its list lives in one label)
            let k = *rng.pick(&[9usize, 10, 11, 13, 19, 20, 21, 39, 64, 65]);
            let names: Vec<String> = (0..k).map(|i| format!("q{i}")).collect();
            f = F::Quant(rng.coin(), names, Box::new(f));
            if rng.coin() {
                f = F::Bin(fast::BinOp::And, Box::new(f), Box::new(F::Var("q3".into())));
            }
        }
        Some((f, rng.next_u64(), rng.below(3) as u8))
    } else {
        None
    };
    DotPlan {
        named,
        nvars,
        names,
        history: history.clone(),
        alloc_shift,
        target: func(rng),
        route: rng.below(2) as u8,
        write_plan: gen_io_plan(rng, 400, true, true),
        formula,
        clone_at: if rng.chance(1, 5) { Some(rng.range(0, history.len())) } else { None },
        alias: if rng.chance(1, 6) { Some((rng.below(4) as u32, rng.range(2, 3) as u32)) } else { None },
    }
}

/// true when two distinct nodes of the diagram have addresses that agree in their low 32 bits
pub fn has_aliased_nodes<S: BDDSymbol>(d: &Rc<BDD<S>>) -> bool {
    let mut full = std::collections::HashSet::new();
    let mut low = std::collections::HashSet::new();
    for n in d.node_list() {
        let p = Rc::as_ptr(&n) as usize;
        if full.insert(p) && !low.insert(p as u32) {
            return true;
        }
    }
    false
}

fn viol(oracle: &str, site: &str, detail: String) -> Violation {
    Violation {
        property: "C14".into(),
        oracle: oracle.into(),
        site: site.into(),
        step: 0,
        detail,
    }
}

/// The function a plan seed stands for: up to 6 variables the seed *is* the truth table; above,
/// the table is expanded from the seed (density chosen by the seed's low bits).
pub fn func_tt(seed: u64, n: usize) -> TT {
    if n <= 6 {
        return TT::from_u64(n, seed);
    }
    let mut t = TT::konst(n, false);
    let mut st = seed;
    let mode = seed & 3;
    for w in t.w.iter_mut() {
        let a = crate::prng::splitmix64(&mut st);
        let b = crate::prng::splitmix64(&mut st);
        *w = match mode {
            0 => a,
            1 => a & b,
            2 => a | b,
            _ => {
                if a & 7 == 0 {
                    b
                } else if a & 8 == 0 {
                    0
                } else {
                    u64::MAX
                }
            }
        };
    }
    if seed == 0 {
        return TT::konst(n, false);
    }
    if seed == u64::MAX {
        return TT::konst(n, true);
    }
    t
}

fn build<S: BDDSymbol>(env: &BDDEnv<S>, tt: &TT, sym: &dyn Fn(usize) -> S, route: u8) -> Rc<BDD<S>> {
    if route == 0 {
        recreate(env, &canon_tt::<S>(tt, sym))
    } else {
        // Shannon expansion through the public connectives
        fn go<S: BDDSymbol>(env: &BDDEnv<S>, tt: &TT, level: usize, sym: &dyn Fn(usize) -> S) -> Rc<BDD<S>> {
            if tt.is_false() {
                return env.mk_const(false);
            }
            if tt.is_true() {
                return env.mk_const(true);
            }
            let mut i = level;
            while i < tt.n && !tt.depends_on(i) {
                i += 1;
            }
            if i >= tt.n {
                return env.mk_const(tt.get(0));
            }
            let h = go(env, &tt.cofactor(i, true), i + 1, sym);
            let l = go(env, &tt.cofactor(i, false), i + 1, sym);
            let v = env.var(sym(i));
            env.or(env.and(Rc::clone(&v), h), env.and(env.not(v), l))
        }
        go(env, tt, 0, sym)
    }
}

fn render<S: BDDSymbol>(d: &Rc<BDD<S>>, filter: TruthTableEntry) -> Result<Vec<u8>, String> {
    let mut v: Vec<u8> = Vec::new();
    match catch(|| BDDGraph::new(d, filter).render_dot(&mut v)) {
        Caught::Ok(Ok(())) => Ok(v),
        Caught::Ok(Err(e)) => Err(format!("render_dot into a Vec failed: {e}")),
        Caught::Panic(m, l) => Err(format!("render_dot panicked: {m} @ {l}")),
        _ => Err("render_dot did not complete".into()),
    }
}

struct World<S: BDDSymbol> {
    sym: Box<dyn Fn(usize) -> S>,
    idx: Box<dyn Fn(&S) -> usize>,
    label: Box<dyn Fn(usize) -> String>,
}

fn judge_diagram<S: BDDSymbol>(plan: &DotPlan, w: &World<S>, stats: &mut Stats, vs: &mut Vec<Violation>, trace: &mut Vec<u64>) {
    let n = plan.nvars;
    let mut env = BDDEnv::<S>::new();
    let mut originals: Vec<BDDEnv<S>> = Vec::new();
    let mut junk: Vec<Vec<u8>> = Vec::new();
    let mut keep: Vec<Rc<BDD<S>>> = Vec::new();
    let mut clone_env = |env: &mut BDDEnv<S>, stats: &mut Stats| {
        let copy = env.clone();
        originals.push(std::mem::replace(env, copy));
        bump(stats, "fault.clone-object");
    };
    for (i, h) in plan.history.iter().enumerate() {
        if plan.clone_at == Some(i) {
            clone_env(&mut env, stats);
        }
        if let Some(s) = plan.alloc_shift.get(i) {
            junk.push(vec![0x5Au8; *s as usize]);
            bump(stats, "fault.alloc-shift");
        }
        keep.push(build(&env, &func_tt(*h, n), &*w.sym, (i % 2) as u8));
    }
    if plan.clone_at == Some(plan.history.len()) {
        clone_env(&mut env, stats);
    }
    let target = func_tt(plan.target, n);
    if let Some((skip, want)) = plan.alias {
        crate::alloc::request_alias(crate::alloc::rc_block_size::<BDD<S>>(), skip, want);
    }
    let d = build(&env, &target, &*w.sym, plan.route);
    crate::alloc::cancel_alias();
    if has_aliased_nodes(&d) {
        bump(stats, "fault.address-alias");
    }
    if walk_tt(&d, n, &*w.idx).as_ref() != Ok(&target) {
        // not this property's business (C03/C13); do not judge the export of a wrong diagram
        return;
    }
    let any = match render(&d, TruthTableEntry::Any) {
        Ok(b) => b,
        Err(e) => {
            vs.push(viol("D3", "render", e));
            return;
        }
    };
    let text = String::from_utf8_lossy(&any).to_string();
    trace.push(text.lines().count() as u64);

    // D3: read back
    let g = match parse_bdd_dot(&text) {
        Ok(g) => g,
        Err(e) => {
            vs.push(viol("D3", "syntax", format!("exported text does not read back: {e}")));
            return;
        }
    };
    if let Err(e) = g.well_formed() {
        vs.push(viol("D3", "declarations", e));
        return;
    }
    let roots = g.roots();
    if roots.len() != 1 {
        vs.push(viol("D3", "root", format!("{} nodes without incoming edge (a diagram has exactly one root; a constant diagram is its single leaf)", roots.len())));
        return;
    }
    let root = roots[0].to_string();
    let labels: Vec<String> = (0..n).map(|i| (w.label)(i)).collect();
    // index: node id -> (variable index, T target, F target); built once, evaluated 2^n times
    let mut index: std::collections::HashMap<&str, (usize, &str, &str)> = std::collections::HashMap::new();
    for (id, label) in g.nodes.iter().filter(|(id, _)| id != "n_true" && id != "n_false") {
        let Some(vi) = labels.iter().position(|l| l == label) else {
            vs.push(viol("D3", "evaluation", format!("test node labelled {label:?} is not a variable in play")));
            return;
        };
        let outs = g.out(id);
        let t: Vec<&&str> = outs.iter().filter(|(l, _)| *l == "T").map(|(_, t)| t).collect();
        let f: Vec<&&str> = outs.iter().filter(|(l, _)| *l == "F").map(|(_, t)| t).collect();
        if t.len() != 1 || f.len() != 1 || outs.len() != 2 {
            vs.push(viol("D3", "edges", format!("test node {id} has {} T-edges and {} F-edges", t.len(), f.len())));
            return;
        }
        index.insert(id.as_str(), (vi, *t[0], *f[0]));
    }
    let mut got = TT::konst(n, false);
    for a in 0..(1usize << n) {
        let mut cur: &str = &root;
        let mut steps = 0;
        loop {
            if cur == "n_true" {
                got.set(a, true);
                break;
            }
            if cur == "n_false" {
                break;
            }
            let Some((vi, t, f)) = index.get(cur) else {
                vs.push(viol("D3", "evaluation", format!("edge into undeclared node {cur}")));
                return;
            };
            cur = if (a >> vi) & 1 == 1 { t } else { f };
            steps += 1;
            if steps > 4096 {
                vs.push(viol("D3", "evaluation", "cycle in the exported graph".into()));
                return;
            }
        }
    }
    if got != target {
        vs.push(viol("D3", "function", format!("read-back graph denotes a different function than the diagram ({} vs {} satisfying assignments of {n} variables)", got.count_ones(), target.count_ones())));
    }
    let test_nodes = g.nodes.iter().filter(|(id, _)| id != "n_true" && id != "n_false").count();
    let want_nodes = distinct_choice_nodes(&d);
    if test_nodes != want_nodes {
        vs.push(viol("D3", "node-count", format!("{test_nodes} test nodes declared, the diagram has {want_nodes} distinct ones")));
    }
    if target.is_false() || target.is_true() {
        bump(stats, "probe.constant_diagram");
    }
    if labels.iter().any(|l| l.chars().any(|c| !c.is_ascii_alphanumeric() && c != '_')) {
        bump(stats, "probe.label_needs_escaping");
    }

    // D4: filters only drop the opposite leaf and the edges into it
    for (filter, dropped) in [(TruthTableEntry::True, "n_false"), (TruthTableEntry::False, "n_true")] {
        match render(&d, filter) {
            Err(e) => vs.push(viol("D4", "render", e)),
            Ok(b) => {
                let ft = String::from_utf8_lossy(&b).to_string();
                match parse_bdd_dot(&ft) {
                    Err(e) => vs.push(viol("D4", "syntax", format!("filtered export does not read back: {e}"))),
                    Ok(fg) => {
                        // compared up to the spelling of node ids (an exporter may number nodes per export):
                        // same labels, and the same graph from the root
                        let want = DotGraph {
                            name: g.name.clone(),
                            nodes: g.nodes.iter().filter(|(id, _)| id != dropped).cloned().collect(),
                            edges: g.edges.iter().filter(|(_, t, _)| t != dropped).cloned().collect(),
                        };
                        let labels = |x: &DotGraph| {
                            let mut v: Vec<String> = x.nodes.iter().map(|(_, l)| l.clone()).collect();
                            v.sort();
                            v
                        };
                        let shape = |x: &DotGraph| -> String {
                            let mut roots: Vec<String> = x.roots().iter().map(|r| x.canonical_form(r)).collect();
                            roots.sort();
                            roots.join(" ; ")
                        };
                        if fg.well_formed().is_err() || labels(&want) != labels(&fg) {
                            vs.push(viol("D4", "nodes", format!("filter {filter}: declared nodes differ from the unfiltered export minus {dropped}")));
                        } else if want.edges.len() != fg.edges.len() || shape(&want) != shape(&fg) {
                            vs.push(viol("D4", "edges", format!("filter {filter}: edges differ from the unfiltered export minus the edges into {dropped}")));
                        }
                    }
                }
            }
        }
    }

    // D1 / D2: the same export through a fault-injecting writer (same process, same addresses)
    let mut fw = FaultyWriter::new(&plan.write_plan);
    let r = catch(|| BDDGraph::new(&d, TruthTableEntry::Any).render_dot(&mut fw));
    bump_by(stats, "fault.write-short", fw.fired.chunks);
    bump_by(stats, "fault.write-eintr", fw.fired.eintr);
    bump_by(stats, "fault.write-io-error", fw.fired.fail);
    bump_by(stats, "fault.write-zero", fw.fired.zero);
    let hard = fw.fired.fail + fw.fired.zero > 0;
    match r {
        Caught::Ok(Ok(())) => {
            if hard {
                vs.push(viol("D2", "swallowed", "a hard write error was injected but render_dot returned Ok".into()));
            } else if fw.accepted != any {
                vs.push(viol("D1", "bytes", "bytes written under short writes / EINTR differ from the fault-free rendering".into()));
            }
        }
        Caught::Ok(Err(_)) => {
            if !hard {
                vs.push(viol("D1", "spurious-error", "render_dot failed although only short writes / EINTR were injected".into()));
            } else if !any.starts_with(&fw.accepted) {
                vs.push(viol("D2", "prefix", "bytes accepted before the injected error are not a prefix of the fault-free rendering".into()));
            }
        }
        Caught::Panic(m, l) => vs.push(viol("D1", &l, format!("render_dot panicked under writer faults: {m} @ {l}"))),
        _ => {}
    }

    // D5: the same function built through another history, in another environment, after other
    // allocator churn: the two exports are isomorphic labelled graphs
    let env2 = BDDEnv::<S>::new();
    let mut junk2: Vec<Vec<u8>> = Vec::new();
    for s in plan.alloc_shift.iter().rev() {
        junk2.push(vec![0xC3u8; (*s as usize) * 3 + 17]);
    }
    let mut keep2 = Vec::new();
    for h in plan.history.iter().rev().take(3) {
        keep2.push(build(&env2, &func_tt(!*h, n), &*w.sym, 1));
    }
    let d2 = build(&env2, &target, &*w.sym, 1 - plan.route);
    if let Ok(b2) = render(&d2, TruthTableEntry::Any) {
        if let Ok(g2) = parse_bdd_dot(&String::from_utf8_lossy(&b2)) {
            let r2 = g2.roots();
            if r2.len() == 1 {
                let c1 = g.canonical_form(&root);
                let c2 = g2.canonical_form(r2[0]);
                if c1 != c2 {
                    vs.push(viol("D5", "isomorphism", "exports of the same function built through different histories are not isomorphic".into()));
                }
                if b2 != any {
                    bump(stats, "probe.addresses_differ_between_histories");
                }
            } else {
                vs.push(viol("D5", "root", "second export has no unique root".into()));
            }
        }
    }
    // D3 on a diagram that is NOT interned: a plain tree of Rc::new values (what From<BDD<NamedSymbol>>
    // or a hand-written diagram looks like: every leaf and node is its own allocation). Judged only when
    // the reduced diagram has no shared test node, i.e. when "distinct node" and "allocation" still
    // coincide for test nodes; the leaves do exist in many allocations and must be declared once each.
    let plain = canon_tt::<S>(&target, &*w.sym);
    fn tree_choices<S: BDDSymbol>(d: &BDD<S>) -> usize {
        match d {
            BDD::Choice(t, _, f) => 1 + tree_choices(t) + tree_choices(f),
            _ => 0,
        }
    }
    if tree_choices(&plain) == distinct_choice_nodes(&plain) {
        bump(stats, "probe.plain_tree_exported");
        match render(&plain, TruthTableEntry::Any) {
            Err(e) => vs.push(viol("D3", "render-plain", e)),
            Ok(bp) => match parse_bdd_dot(&String::from_utf8_lossy(&bp)) {
                Err(e) => vs.push(viol("D3", "syntax-plain", format!("export of an un-interned diagram does not read back: {e}"))),
                Ok(gp) => {
                    if let Err(e) = gp.well_formed() {
                        vs.push(viol("D3", "declarations-plain", format!("export of an un-interned diagram (no shared test nodes): {e}")));
                    } else {
                        let rp = gp.roots();
                        if rp.len() != 1 || gp.canonical_form(rp[0]) != g.canonical_form(&root) {
                            vs.push(viol("D3", "isomorphism-plain", "export of an un-interned copy of the diagram is not isomorphic to the export of the interned one".into()));
                        }
                    }
                }
            },
        }
    }
    drop(junk);
    drop(junk2);
    drop(keep);
}

// ---- syntax trees ------------------------------------------------------------------------------

fn term_of(t: &SymbolicBDD) -> Term {
    let leaf = |s: String| Term { label: s, children: vec![] };
    match t {
        SymbolicBDD::False => leaf("False".into()),
        SymbolicBDD::True => leaf("True".into()),
        SymbolicBDD::Var(v) => leaf(format!("Var {}", v.name)),
        SymbolicBDD::Subtree(_) => leaf("BDD".into()),
        SymbolicBDD::Reference(n) => leaf(format!("Ref {n}")),
        SymbolicBDD::Not(f) => Term {
            label: "Not".into(),
            children: vec![(String::new(), term_of(f))],
        },
        SymbolicBDD::Quantifier(q, vs, f) => Term {
            label: format!(
                "{} [{}]",
                match q {
                    QuantifierType::Exists => "Exists",
                    QuantifierType::Forall => "Forall",
                },
                vs.iter().map(|v| v.name.as_ref().clone()).collect::<Vec<_>>().join(", ")
            ),
            children: vec![(String::new(), term_of(f))],
        },
        SymbolicBDD::FixedPoint(v, init, f) => Term {
            label: format!("{} {}", if *init { "GFP" } else { "LFP" }, v.name),
            children: vec![(String::new(), term_of(f))],
        },
        SymbolicBDD::BinaryOp(op, l, r) => Term {
            label: match op {
                BinaryOperator::And => "And",
                BinaryOperator::Or => "Or",
                BinaryOperator::Xor => "Xor",
                BinaryOperator::Nor => "Nor",
                BinaryOperator::Nand => "Nand",
                BinaryOperator::Implies => "Implies",
                BinaryOperator::ImpliesInv => "ImpliesInv",
                BinaryOperator::Iff => "Iff",
            }
            .into(),
            children: vec![("L".into(), term_of(l)), ("R".into(), term_of(r))],
        },
        SymbolicBDD::Ite(c, t, e) => Term {
            label: "Ite".into(),
            children: vec![("If".into(), term_of(c)), ("Then".into(), term_of(t)), ("Else".into(), term_of(e))],
        },
        SymbolicBDD::CountableConst(op, l, n) => Term {
            label: format!("{} {n}", cmp_name(*op)),
            children: l.iter().enumerate().map(|(j, x)| (format!("{{{j}}}"), term_of(x))).collect(),
        },
        SymbolicBDD::CountableVariable(op, l, r) => Term {
            label: cmp_name(*op).into(),
            children: l
                .iter()
                .enumerate()
                .map(|(j, x)| (format!("L{{{j}}}"), term_of(x)))
                .chain(r.iter().enumerate().map(|(j, x)| (format!("R{{{j}}}"), term_of(x))))
                .collect(),
        },
    }
}

fn cmp_name(op: CountableOperator) -> &'static str {
    match op {
        CountableOperator::AtMost => "AtMost",
        CountableOperator::LessThan => "LessThan",
        CountableOperator::AtLeast => "AtLeast",
        CountableOperator::MoreThan => "MoreThan",
        CountableOperator::Exactly => "Exactly",
    }
}

/// The term with every run of white space in a label collapsed into one blank.
fn norm_term(t: &Term) -> Term {
    Term {
        label: t.label.split_whitespace().collect::<Vec<_>>().join(" "),
        children: t.children.iter().map(|(e, c)| (e.clone(), norm_term(c))).collect(),
    }
}

fn distinct_subterms(t: &Term, acc: &mut Vec<Term>) {
    if !acc.contains(t) {
        acc.push(t.clone());
    }
    for (_, c) in &t.children {
        distinct_subterms(c, acc);
    }
}

fn judge_tree(plan: &DotPlan, stats: &mut Stats, vs: &mut Vec<Violation>, trace: &mut Vec<u64>) {
    let Some((f, pseed, noise)) = &plan.formula else {
        return;
    };
    let mut prng = Prng::new(*pseed);
    let text = Printer::noisy(&mut prng, *noise).print(f);
    let parsed = catch(|| {
        let mut rd = BufReader::new(text.as_bytes());
        ParsedFormula::new(&mut rd, None)
    });
    let Caught::Ok(Ok(pf)) = parsed else {
        bump(stats, "probe.tree.text_rejected");
        return;
    };
    bump(stats, "probe.tree.exported");
    let mut clean: Vec<u8> = Vec::new();
    match catch(|| SymbolicParseTree::new(&pf.bdd).render_dot(&mut clean)) {
        Caught::Ok(Ok(())) => {}
        Caught::Ok(Err(e)) => {
            vs.push(viol("D6", "render", format!("render_dot into a Vec failed: {e}")));
            return;
        }
        Caught::Panic(m, l) => {
            vs.push(viol("D6", &l, format!("render_dot of the syntax tree panicked: {m} @ {l}")));
            return;
        }
        _ => return,
    }
    let dot_text = String::from_utf8_lossy(&clean).to_string();
    trace.push(dot_text.lines().count() as u64);
    let g: DotGraph = match parse_dot(&dot_text) {
        Ok(g) => g,
        Err(e) => {
            vs.push(viol("D6", "syntax", format!("syntax-tree export does not read back: {e}")));
            return;
        }
    };
    if let Err(e) = g.well_formed() {
        vs.push(viol("D6", "declarations", e));
        return;
    }
    let roots = g.roots();
    if roots.len() != 1 {
        vs.push(viol("D6", "root", format!("{} nodes without incoming edge", roots.len())));
        return;
    }
    let want = term_of(&pf.bdd);
    match g.to_term(roots[0]) {
        Err(e) => vs.push(viol("D6", "term", e)),
        Ok(got) => {
            // how a label is laid out (line breaks in a long list) is not part of the tree
            if norm_term(&got) != norm_term(&want) {
                vs.push(viol("D6", "term", format!("the export of `{text}` reads back as a different term")));
            }
        }
    }
    let mut subs = Vec::new();
    distinct_subterms(&want, &mut subs);
    if subs.len() != g.nodes.len() {
        vs.push(viol("D6", "sharing", format!("{} nodes declared for {} distinct sub-terms", g.nodes.len(), subs.len())));
    }
    if subs.len() < count_terms(&want) {
        bump(stats, "probe.tree.has_repeated_subterm");
    }
    // D1 / D2 for the syntax-tree exporter
    let mut fw = FaultyWriter::new(&plan.write_plan);
    let r = catch(|| SymbolicParseTree::new(&pf.bdd).render_dot(&mut fw));
    let hard = fw.fired.fail + fw.fired.zero > 0;
    match r {
        Caught::Ok(Ok(())) => {
            if hard {
                vs.push(viol("D2", "swallowed-tree", "a hard write error was injected but the syntax-tree render_dot returned Ok".into()));
            } else if fw.accepted != clean {
                vs.push(viol("D1", "bytes-tree", "syntax-tree bytes under short writes / EINTR differ from the fault-free rendering".into()));
            }
        }
        Caught::Ok(Err(_)) => {
            if !hard {
                vs.push(viol("D1", "spurious-error-tree", "syntax-tree render_dot failed although only short writes / EINTR were injected".into()));
            } else if !clean.starts_with(&fw.accepted) {
                vs.push(viol("D2", "prefix-tree", "bytes accepted before the injected error are not a prefix of the fault-free rendering".into()));
            }
        }
        Caught::Panic(m, l) => vs.push(viol("D1", &l, format!("syntax-tree render_dot panicked under writer faults: {m} @ {l}"))),
        _ => {}
    }
}

fn count_terms(t: &Term) -> usize {
    1 + t.children.iter().map(|(_, c)| count_terms(c)).sum::<usize>()
}

pub fn execute(plan: &DotPlan) -> RunOutcome {
    let mut out = RunOutcome::default();
    let mut stats = Stats::new();
    let mut vs = Vec::new();
    let mut trace = Vec::new();
    out.plan_digest = digest_bytes(&serde_json::to_vec(plan).expect("plan serialises"));
    if plan.named {
        let names: Vec<Rc<String>> = plan.names.iter().map(|s| Rc::new(s.clone())).collect();
        let n2 = names.clone();
        let w = World::<NamedSymbol> {
            sym: Box::new(move |i| NamedSymbol {
                name: Rc::clone(&names[i]),
                id: i,
            }),
            idx: Box::new(|s: &NamedSymbol| s.id),
            label: Box::new(move |i| n2[i].as_ref().clone()),
        };
        judge_diagram(plan, &w, &mut stats, &mut vs, &mut trace);
    } else {
        // usize symbols: mostly 0..n, sometimes ids for which two test nodes of one diagram can have
        // the same structural hash (`hash-collision`: x_M collides with -x_j)
        let mut ids: Vec<usize> = (0..plan.nvars).collect();
        if plan.nvars >= 2 && plan.target % 5 == 0 {
            let j = (plan.target as usize / 5) % (plan.nvars - 1);
            let m = crate::fx::id_colliding_with_negated(j as u64) as usize;
            if m > plan.nvars {
                ids[plan.nvars - 1] = m;
                bump(&mut stats, "fault.hash-collision");
            }
        }
        let (ids1, ids2, ids3) = (ids.clone(), ids.clone(), ids);
        let w = World::<usize> {
            sym: Box::new(move |i| ids1[i]),
            idx: Box::new(move |s: &usize| ids2.iter().position(|x| x == s).unwrap_or(usize::MAX)),
            label: Box::new(move |i| ids3[i].to_string()),
        };
        judge_diagram(plan, &w, &mut stats, &mut vs, &mut trace);
    }
    judge_tree(plan, &mut stats, &mut vs, &mut trace);
    let faults = stats.iter().filter(|(k, _)| k.starts_with("fault.")).map(|(_, v)| *v).sum::<u64>();
    let tfun = func_tt(plan.target, plan.nvars);
    out.nontrivial = faults > 0 && !tfun.is_false() && !tfun.is_true();
    if plan.nvars > 6 {
        bump(&mut stats, "probe.big_diagram");
    }
    out.steps = 1;
    out.state_digests.push(tfun.digest());
    trace.push(vs.len() as u64);
    out.trace_digest = mix(&trace);
    // one violation per oracle/site is enough
    vs.dedup_by(|a, b| a.class() == b.class());
    out.violations = vs;
    out.stats = stats;
    out
}

pub fn minimise(plan: &DotPlan, v: &Violation) -> (DotPlan, Violation) {
    let same = |p: &DotPlan| -> Option<Violation> {
        execute(p).violations.into_iter().find(|x| x.oracle == v.oracle && x.site == v.site)
    };
    let mut best = plan.clone();
    let mut best_v = v.clone();
    let attempt = |cand: DotPlan, best: &mut DotPlan, best_v: &mut Violation| {
        if let Some(nv) = same(&cand) {
            *best = cand;
            *best_v = nv;
        }
    };
    let tree_oracle = v.oracle == "D6" || v.site.ends_with("-tree");
    if !tree_oracle {
        let mut c = best.clone();
        c.formula = None;
        attempt(c, &mut best, &mut best_v);
    }
    let mut c = best.clone();
    c.history.clear();
    attempt(c, &mut best, &mut best_v);
    let mut c = best.clone();
    c.alloc_shift.clear();
    attempt(c, &mut best, &mut best_v);
    let mut c = best.clone();
    c.write_plan = IoPlan::clean();
    attempt(c, &mut best, &mut best_v);
    let mut c = best.clone();
    c.route = 0;
    attempt(c, &mut best, &mut best_v);
    if best.named {
        let mut c = best.clone();
        c.named = false;
        attempt(c, &mut best, &mut best_v);
    }
    // simpler target functions
    for cand_t in [0u64, u64::MAX, 0xAAAA_AAAA_AAAA_AAAA, 0x8888_8888_8888_8888] {
        let mut c = best.clone();
        c.target = cand_t;
        attempt(c, &mut best, &mut best_v);
    }
    while best.nvars > 1 {
        let mut c = best.clone();
        c.nvars -= 1;
        c.names.truncate(c.nvars);
        if same(&c).is_some() {
            best = c;
        } else {
            break;
        }
    }
    // shrink the formula
    let mut budget = 300usize;
    loop {
        let Some((f, s, nz)) = best.formula.clone() else { break };
        let mut improved = false;
        for cand in fast::shrink_candidates(&f) {
            if budget == 0 {
                break;
            }
            budget -= 1;
            let mut c = best.clone();
            c.formula = Some((cand, s, 0.min(nz)));
            if let Some(nv) = same(&c) {
                best = c;
                best_v = nv;
                improved = true;
                break;
            }
        }
        if !improved || budget == 0 {
            break;
        }
    }
    if let Some(nv) = same(&best) {
        best_v = nv;
    }
    (best, best_v)
}
