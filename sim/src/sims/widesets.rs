//! C19 with a caller-defined element type: `BDDSet` is generic over `BDDCategorizable`, and its
//! width is not tied to the machine word. Plans whose `set_bits` exceed 64 are executed here: the
//! set steps of the plan (all other steps are ignored) run on sets of 65..96-bit integers whose
//! elements are a `u128` newtype, lock-step against a finite / co-finite reference set.
//! Plans with `set_bits2` (`mixed-widths`) are executed here as well: sets of two different
//! widths share the environment (a set created at an odd step has the second width); sets of
//! different widths are never combined.

use std::collections::{BTreeMap, BTreeSet};
use std::rc::Rc;

use rsbdd::bdd::{BDDEnv, BDD};
use rsbdd::set::{BDDCategorizable, BDDSet};

use super::envsim::{EnvPlan, Op, SetBinKind};
use crate::core::{bump, catch, Caught, RunOutcome, Stats, Violation};
use crate::prng::{digest_bytes, mix};

const STEP_TICK_BUDGET: u64 = 1 << 18;

/// An element wider than the machine word; bit `c` decides like the library's own `usize` impl.
#[derive(Clone, Copy, Debug, PartialEq, Eq, PartialOrd, Ord)]
pub struct Wide(pub u128);

impl BDDCategorizable for Wide {
    fn categorize(&self, c: usize) -> bool {
        (self.0 >> c) & 1 == 0
    }
}

fn mask(e: u128, bits: usize) -> u128 {
    if bits >= 128 {
        e
    } else {
        e & ((1u128 << bits) - 1)
    }
}

/// The plan's 64-bit element values spread over `bits` bits: elements that agree above their low
/// byte get the same high part, so that small differences stay small differences.
pub fn widen(e: usize, bits: usize) -> u128 {
    let high = mix(&[(e >> 8) as u64, bits as u64]) as u128;
    mask(((high << 64) | e as u128).rotate_left(((e >> 8) % 3) as u32 * 4), bits)
}

#[derive(Clone, Debug, Default, PartialEq, Eq)]
struct Model {
    finite: BTreeSet<u128>,
    co: bool,
}

impl Model {
    fn of(items: impl IntoIterator<Item = u128>) -> Self {
        Self {
            finite: items.into_iter().collect(),
            co: false,
        }
    }
    fn contains(&self, e: u128) -> bool {
        self.finite.contains(&e) != self.co
    }
    fn insert(&mut self, e: u128) {
        if self.co {
            self.finite.remove(&e);
        } else {
            self.finite.insert(e);
        }
    }
    fn negated(&self) -> Self {
        Self {
            finite: self.finite.clone(),
            co: !self.co,
        }
    }
    fn intersect(&self, o: &Self) -> Self {
        let (f1, f2) = (&self.finite, &o.finite);
        match (self.co, o.co) {
            (false, false) => Self::of(f1.intersection(f2).copied()),
            (true, false) => Self::of(f2.difference(f1).copied()),
            (false, true) => Self::of(f1.difference(f2).copied()),
            (true, true) => Self {
                finite: f1.union(f2).copied().collect(),
                co: true,
            },
        }
    }
    fn union(&self, o: &Self) -> Self {
        self.negated().intersect(&o.negated()).negated()
    }
    fn difference(&self, o: &Self) -> Self {
        self.intersect(&o.negated())
    }
}

fn viol(oracle: &str, site: &str, step: usize, detail: String) -> Violation {
    Violation {
        property: "C19".into(),
        oracle: oracle.into(),
        site: site.into(),
        step,
        detail,
    }
}

/// Membership read off the diagram without calling `contains`.
fn member(d: &BDD<usize>, e: Wide, bits: usize) -> Result<bool, String> {
    let mut node = d;
    loop {
        match node {
            BDD::True => return Ok(true),
            BDD::False => return Ok(false),
            BDD::Choice(t, s, f) => {
                if *s >= bits {
                    return Err(format!("set diagram tests variable {s} outside its {bits} bits"));
                }
                node = if e.categorize(*s) { t } else { f };
            }
        }
    }
}

struct Slot {
    set: BDDSet,
    model: Model,
    bits: usize,
}

/// The plan's element value as an element of a `bits`-bit set.
fn elem(e: usize, bits: usize) -> u128 {
    if bits > 64 {
        widen(e, bits)
    } else {
        mask(e as u128, bits)
    }
}

/// Bit positions whose flip gives the neighbours of an element that are probed as well.
fn flips(bits: usize) -> Vec<usize> {
    if bits == 0 {
        return Vec::new();
    }
    let mut v = vec![0usize, bits - 1];
    if bits > 64 {
        v.push(bits - 65);
        v.push(64);
    }
    v.sort_unstable();
    v.dedup();
    v
}

/// Probe universe of one width: everything for small widths, else every element the plan
/// mentions, boundary elements, and their neighbours.
fn universe_of(plan: &EnvPlan, bits: usize) -> Vec<u128> {
    if bits <= 8 {
        return (0..(1u128 << bits)).collect();
    }
    let mut u: BTreeSet<u128> = BTreeSet::new();
    let ones = mask(u128::MAX, bits);
    for b in [0u128, 1, 2, 3, ones, ones - 1, ones >> 1, (ones >> 1) + 1, 1u128 << 63, 1u128 << 64, (1u128 << 64) - 1] {
        u.insert(mask(b, bits));
    }
    for st in &plan.steps {
        if let Op::SetFromElement(e) | Op::SetInsert(_, e) | Op::SetContains(_, e) = &st.op {
            let w = elem(*e, bits);
            u.insert(w);
            for k in flips(bits) {
                u.insert(mask(w ^ (1u128 << k), bits));
            }
        }
    }
    u.into_iter().collect()
}

pub fn execute(plan: &EnvPlan) -> RunOutcome {
    let mut out = RunOutcome::default();
    let mut stats = Stats::new();
    out.plan_digest = digest_bytes(&serde_json::to_vec(plan).expect("plan serialises"));
    let w1 = plan.set_bits.min(120);
    let w2 = plan.set_bits2.min(120);
    if w1 > 64 || w2 > 64 {
        bump(&mut stats, "fault.custom-element-type");
    }
    if w2 != 0 {
        bump(&mut stats, "fault.mixed-widths");
    }
    bump(&mut stats, &format!("probe.set_bits.{w1}"));
    let width_for = |step_no: usize| if w2 != 0 && step_no % 2 == 1 { w2 } else { w1 };
    let mut widths = vec![w1];
    if w2 != 0 {
        widths.push(w2);
    }
    let universes: BTreeMap<usize, Vec<u128>> = widths.iter().map(|w| (*w, universe_of(plan, *w))).collect();
    let mentions = plan.steps.iter().any(|s| matches!(s.op, Op::SetFromElement(_) | Op::SetInsert(..) | Op::SetContains(..)));

    let env = Rc::new(BDDEnv::<usize>::new());
    let mut sets: BTreeMap<usize, Slot> = BTreeMap::new();
    let mut violations: Vec<Violation> = Vec::new();
    let mut trace: Vec<u64> = Vec::new();

    'steps: for (step_no, step) in plan.steps.iter().enumerate() {
        let opname = step.op.name();
        let set_id = |sel: usize, sets: &BTreeMap<usize, Slot>| -> Option<usize> {
            let target = sel % (step_no + 1);
            sets.range(..=target).next_back().map(|(k, _)| *k).or_else(|| sets.keys().next().copied())
        };
        rsbdd::verif_hooks::reset();
        rsbdd::verif_hooks::set_budget(Some(STEP_TICK_BUDGET));
        let mut panicked: Option<(String, String)> = None;
        let mut budget = false;
        // the set the step writes to (all sets are compared every 8th step and at the end)
        let touched: Option<usize> = match &step.op {
            Op::SetInsert(s, _) | Op::SetEmpty(s) | Op::SetUniverse(s) | Op::SetBin(_, s, _) | Op::SetContains(s, _) => set_id(*s, &sets),
            _ => None,
        };
        let all_sets = step_no % 8 == 0 || step_no + 1 == plan.steps.len() || matches!(step.op, Op::SetNew | Op::SetFromElement(_) | Op::SetClone(_));
        let note = |c: Caught<()>, panicked: &mut Option<(String, String)>, budget: &mut bool| match c {
            Caught::Panic(m, l) => *panicked = Some((m, l)),
            Caught::Budget => *budget = true,
            _ => {}
        };
        match &step.op {
            Op::SetNew if sets.len() < 4 => {
                let bits = width_for(step_no);
                let e2 = Rc::clone(&env);
                match catch(|| BDDSet::with_env(bits, &e2)) {
                    Caught::Ok(set) => {
                        sets.insert(step_no, Slot { set, model: Model::default(), bits });
                    }
                    c => note(c.map_unit(), &mut panicked, &mut budget),
                }
            }
            Op::SetFromElement(e) if sets.len() < 4 => {
                let bits = width_for(step_no);
                let w = elem(*e, bits);
                let e2 = Rc::clone(&env);
                match catch(|| BDDSet::from_element(Wide(w), bits, &e2)) {
                    Caught::Ok(set) => {
                        sets.insert(step_no, Slot { set, model: Model::of([w]), bits });
                    }
                    c => note(c.map_unit(), &mut panicked, &mut budget),
                }
            }
            Op::SetClone(s) if sets.len() < 4 => {
                if let Some(k) = set_id(*s, &sets) {
                    let (src, m, bits) = (&sets[&k].set, sets[&k].model.clone(), sets[&k].bits);
                    match catch(|| src.clone()) {
                        Caught::Ok(set) => {
                            sets.insert(step_no, Slot { set, model: m, bits });
                        }
                        c => note(c.map_unit(), &mut panicked, &mut budget),
                    }
                }
            }
            Op::SetDrop(s) if sets.len() > 1 => {
                if let Some(k) = set_id(*s, &sets) {
                    sets.remove(&k);
                }
            }
            Op::SetInsert(s, e) => {
                if let Some(k) = set_id(*s, &sets) {
                    let w = elem(*e, sets[&k].bits);
                    let set = &sets[&k].set;
                    let c = catch(|| {
                        set.insert(Wide(w));
                    });
                    note(c, &mut panicked, &mut budget);
                    sets.get_mut(&k).expect("live").model.insert(w);
                }
            }
            Op::SetEmpty(s) => {
                if let Some(k) = set_id(*s, &sets) {
                    let set = &sets[&k].set;
                    let c = catch(|| {
                        set.empty();
                    });
                    note(c, &mut panicked, &mut budget);
                    sets.get_mut(&k).expect("live").model = Model::default();
                }
            }
            Op::SetUniverse(s) => {
                if let Some(k) = set_id(*s, &sets) {
                    let set = &sets[&k].set;
                    let c = catch(|| {
                        set.universe();
                    });
                    note(c, &mut panicked, &mut budget);
                    sets.get_mut(&k).expect("live").model = Model::default().negated();
                }
            }
            Op::SetBin(kind, s, o) => {
                if let (Some(k), Some(j)) = (set_id(*s, &sets), set_id(*o, &sets)) {
                    if sets[&k].bits != sets[&j].bits {
                        // sets of different widths are never combined
                        bump(&mut stats, "probe.mixed-width-operands-skipped");
                    } else {
                        let (a, b) = (&sets[&k].set, &sets[&j].set);
                        let c = catch(|| {
                            match kind {
                                SetBinKind::Union => a.union(b),
                                SetBinKind::Intersect => a.intersect(b),
                                SetBinKind::Complement => a.complement(b),
                            };
                        });
                        note(c, &mut panicked, &mut budget);
                        let other = sets[&j].model.clone();
                        let m = &mut sets.get_mut(&k).expect("live").model;
                        *m = match kind {
                            SetBinKind::Union => m.union(&other),
                            SetBinKind::Intersect => m.intersect(&other),
                            SetBinKind::Complement => m.difference(&other),
                        };
                    }
                }
            }
            Op::SetContains(s, e) => {
                if let Some(k) = set_id(*s, &sets) {
                    // the query itself, and the same query on the neighbours of the element
                    let bits = sets[&k].bits;
                    let w = elem(*e, bits);
                    let mut queries = vec![w];
                    queries.extend(flips(bits).into_iter().map(|f| mask(w ^ (1u128 << f), bits)));
                    for q in queries {
                        let set = &sets[&k].set;
                        match catch(|| set.contains(Wide(q))) {
                            Caught::Ok(ans) => {
                                let want = sets[&k].model.contains(q);
                                trace.push(ans as u64);
                                if ans != want {
                                    violations.push(viol("S2", &opname, step_no, format!("contains({q:#x}) on a {bits}-bit set answered {ans}, the reference set says {want}")));
                                    break 'steps;
                                }
                            }
                            c => note(c.map_unit(), &mut panicked, &mut budget),
                        }
                    }
                }
            }
            _ => {}
        }
        rsbdd::verif_hooks::set_budget(None);
        out.ticks += rsbdd::verif_hooks::ticks();
        out.steps += 1;
        if budget {
            out.unjudged = Some("tick budget exhausted in a set step (custom element type / mixed widths)".into());
            break;
        }
        if let Some((m, l)) = panicked {
            violations.push(viol("S5", &format!("{opname}@{l}"), step_no, format!("{opname} panicked (widths {w1} / {w2}, u128 elements): {m} @ {l}")));
            break;
        }
        // S1: every set's diagram against its reference set on the probe universe of its width
        for (k, slot) in sets.iter() {
            if !all_sets && touched != Some(*k) {
                continue;
            }
            let d = match slot.set.bdd.try_borrow() {
                Ok(d) => Rc::clone(&d),
                Err(_) => {
                    violations.push(viol("S5", &opname, step_no, format!("set #{k} is left mutably borrowed")));
                    break 'steps;
                }
            };
            let bits = slot.bits;
            for e in &universes[&bits] {
                match member(&d, Wide(*e), bits) {
                    Ok(got) if got == slot.model.contains(*e) => {}
                    Ok(got) => {
                        violations.push(viol("S1", &opname, step_no, format!("set #{k} ({bits} bits{}) after {opname}: element {e:#x} is {}a member, the reference set says {}", if w2 != 0 { format!(", sharing the environment with sets of {} bits", if bits == w1 { w2 } else { w1 }) } else { String::new() }, if got { "" } else { "not " }, slot.model.contains(*e))));
                        break 'steps;
                    }
                    Err(e) => {
                        violations.push(viol("S1", &opname, step_no, e));
                        break 'steps;
                    }
                }
            }
            trace.push(mix(&[*k as u64, slot.model.finite.len() as u64, slot.model.co as u64]));
        }
    }
    rsbdd::verif_hooks::set_budget(None);
    out.nontrivial = mentions;
    out.trace_digest = mix(&trace);
    out.state_digests.push(mix(&trace));
    out.violations = violations;
    out.stats = stats;
    out
}

trait MapUnit {
    fn map_unit(self) -> Caught<()>;
}

impl<T> MapUnit for Caught<T> {
    fn map_unit(self) -> Caught<()> {
        match self {
            Caught::Ok(_) => Caught::Ok(()),
            Caught::Budget => Caught::Budget,
            Caught::Cancel => Caught::Cancel,
            Caught::Panic(m, l) => Caught::Panic(m, l),
        }
    }
}
