//! C19 with a caller-defined element type: `BDDSet` is generic over `BDDCategorizable`, and its
//! width is not tied to the machine word. Plans whose `set_bits` exceed 64 are executed here: the
//! set steps of the plan (all other steps are ignored) run on sets of 65..96-bit integers whose
//! elements are a `u128` newtype, lock-step against a finite / co-finite reference set.

use std::collections::{BTreeMap, BTreeSet};
use std::rc::Rc;

use rsbdd::bdd::{BDDEnv, BDD};
use rsbdd::set::{BDDCategorizable, BDDSet};

use super::envsim::{EnvPlan, Op, SetBinKind};
use crate::core::{bump, catch, Caught, RunOutcome, Stats, Violation};
use crate::prng::{digest_bytes, mix};

const STEP_TICK_BUDGET: u64 = 1 << 18;

/// An element wider than the machine word; bit `c` decides like the library's own `usize` impl.
#[derive(Clone, Copy, Debug, PartialEq, Eq, PartialOrd, Ord)]
pub struct Wide(pub u128);

impl BDDCategorizable for Wide {
    fn categorize(&self, c: usize) -> bool {
        (self.0 >> c) & 1 == 0
    }
}

fn mask(e: u128, bits: usize) -> u128 {
    if bits >= 128 {
        e
    } else {
        e & ((1u128 << bits) - 1)
    }
}

/// The plan's 64-bit element values spread over `bits` bits: elements that agree above their low
/// byte get the same high part, so that small differences stay small differences.
pub fn widen(e: usize, bits: usize) -> u128 {
    let high = mix(&[(e >> 8) as u64, bits as u64]) as u128;
    mask(((high << 64) | e as u128).rotate_left(((e >> 8) % 3) as u32 * 4), bits)
}

#[derive(Clone, Debug, Default, PartialEq, Eq)]
struct Model {
    finite: BTreeSet<u128>,
    co: bool,
}

impl Model {
    fn of(items: impl IntoIterator<Item = u128>) -> Self {
        Self {
            finite: items.into_iter().collect(),
            co: false,
        }
    }
    fn contains(&self, e: u128) -> bool {
        self.finite.contains(&e) != self.co
    }
    fn insert(&mut self, e: u128) {
        if self.co {
            self.finite.remove(&e);
        } else {
            self.finite.insert(e);
        }
    }
    fn negated(&self) -> Self {
        Self {
            finite: self.finite.clone(),
            co: !self.co,
        }
    }
    fn intersect(&self, o: &Self) -> Self {
        let (f1, f2) = (&self.finite, &o.finite);
        match (self.co, o.co) {
            (false, false) => Self::of(f1.intersection(f2).copied()),
            (true, false) => Self::of(f2.difference(f1).copied()),
            (false, true) => Self::of(f1.difference(f2).copied()),
            (true, true) => Self {
                finite: f1.union(f2).copied().collect(),
                co: true,
            },
        }
    }
    fn union(&self, o: &Self) -> Self {
        self.negated().intersect(&o.negated()).negated()
    }
    fn difference(&self, o: &Self) -> Self {
        self.intersect(&o.negated())
    }
}

fn viol(oracle: &str, site: &str, step: usize, detail: String) -> Violation {
    Violation {
        property: "C19".into(),
        oracle: oracle.into(),
        site: site.into(),
        step,
        detail,
    }
}

/// Membership read off the diagram without calling `contains`.
fn member(d: &BDD<usize>, e: Wide, bits: usize) -> Result<bool, String> {
    let mut node = d;
    loop {
        match node {
            BDD::True => return Ok(true),
            BDD::False => return Ok(false),
            BDD::Choice(t, s, f) => {
                if *s >= bits {
                    return Err(format!("set diagram tests variable {s} outside its {bits} bits"));
                }
                node = if e.categorize(*s) { t } else { f };
            }
        }
    }
}

pub fn execute(plan: &EnvPlan) -> RunOutcome {
    let mut out = RunOutcome::default();
    let mut stats = Stats::new();
    out.plan_digest = digest_bytes(&serde_json::to_vec(plan).expect("plan serialises"));
    let bits = plan.set_bits.min(120);
    bump(&mut stats, "fault.custom-element-type");
    bump(&mut stats, &format!("probe.set_bits.{bits}"));

    // probe universe: every element the plan mentions, boundary elements, and their neighbours
    let mut universe: BTreeSet<u128> = BTreeSet::new();
    let ones = mask(u128::MAX, bits);
    for b in [0u128, 1, 2, 3, ones, ones - 1, ones >> 1, (ones >> 1) + 1, 1u128 << 63, 1u128 << 64, (1u128 << 64) - 1] {
        universe.insert(mask(b, bits));
    }
    let mentioned: Vec<u128> = plan
        .steps
        .iter()
        .filter_map(|s| match &s.op {
            Op::SetFromElement(e) | Op::SetInsert(_, e) | Op::SetContains(_, e) => Some(widen(*e, bits)),
            _ => None,
        })
        .collect();
    for e in &mentioned {
        universe.insert(*e);
        for k in [0usize, bits - 65, 64, bits - 1] {
            universe.insert(mask(*e ^ (1u128 << k), bits));
        }
    }
    let universe: Vec<u128> = universe.into_iter().collect();

    let env = Rc::new(BDDEnv::<usize>::new());
    let mut sets: BTreeMap<usize, (BDDSet, Model)> = BTreeMap::new();
    let mut violations: Vec<Violation> = Vec::new();
    let mut trace: Vec<u64> = Vec::new();

    'steps: for (step_no, step) in plan.steps.iter().enumerate() {
        let opname = step.op.name();
        let set_id = |sel: usize, sets: &BTreeMap<usize, (BDDSet, Model)>| -> Option<usize> {
            let target = sel % (step_no + 1);
            sets.range(..=target).next_back().map(|(k, _)| *k).or_else(|| sets.keys().next().copied())
        };
        rsbdd::verif_hooks::reset();
        rsbdd::verif_hooks::set_budget(Some(STEP_TICK_BUDGET));
        let mut panicked: Option<(String, String)> = None;
        let mut budget = false;
        // the set the step writes to (all sets are compared every 8th step and at the end)
        let touched: Option<usize> = match &step.op {
            Op::SetInsert(s, _) | Op::SetEmpty(s) | Op::SetUniverse(s) | Op::SetBin(_, s, _) | Op::SetContains(s, _) => set_id(*s, &sets),
            _ => None,
        };
        let all_sets = step_no % 8 == 0 || step_no + 1 == plan.steps.len() || matches!(step.op, Op::SetNew | Op::SetFromElement(_) | Op::SetClone(_));
        let note = |c: Caught<()>, panicked: &mut Option<(String, String)>, budget: &mut bool| match c {
            Caught::Panic(m, l) => *panicked = Some((m, l)),
            Caught::Budget => *budget = true,
            _ => {}
        };
        match &step.op {
            Op::SetNew if sets.len() < 4 => {
                let e2 = Rc::clone(&env);
                match catch(|| BDDSet::with_env(bits, &e2)) {
                    Caught::Ok(s) => {
                        sets.insert(step_no, (s, Model::default()));
                    }
                    c => note(c.map_unit(), &mut panicked, &mut budget),
                }
            }
            Op::SetFromElement(e) if sets.len() < 4 => {
                let w = widen(*e, bits);
                let e2 = Rc::clone(&env);
                match catch(|| BDDSet::from_element(Wide(w), bits, &e2)) {
                    Caught::Ok(s) => {
                        sets.insert(step_no, (s, Model::of([w])));
                    }
                    c => note(c.map_unit(), &mut panicked, &mut budget),
                }
            }
            Op::SetClone(s) if sets.len() < 4 => {
                if let Some(k) = set_id(*s, &sets) {
                    let (src, m) = (&sets[&k].0, sets[&k].1.clone());
                    match catch(|| src.clone()) {
                        Caught::Ok(c) => {
                            sets.insert(step_no, (c, m));
                        }
                        c => note(c.map_unit(), &mut panicked, &mut budget),
                    }
                }
            }
            Op::SetDrop(s) if sets.len() > 1 => {
                if let Some(k) = set_id(*s, &sets) {
                    sets.remove(&k);
                }
            }
            Op::SetInsert(s, e) => {
                if let Some(k) = set_id(*s, &sets) {
                    let w = widen(*e, bits);
                    let set = &sets[&k].0;
                    let c = catch(|| {
                        set.insert(Wide(w));
                    });
                    note(c, &mut panicked, &mut budget);
                    sets.get_mut(&k).expect("live").1.insert(w);
                }
            }
            Op::SetEmpty(s) => {
                if let Some(k) = set_id(*s, &sets) {
                    let set = &sets[&k].0;
                    let c = catch(|| {
                        set.empty();
                    });
                    note(c, &mut panicked, &mut budget);
                    sets.get_mut(&k).expect("live").1 = Model::default();
                }
            }
            Op::SetUniverse(s) => {
                if let Some(k) = set_id(*s, &sets) {
                    let set = &sets[&k].0;
                    let c = catch(|| {
                        set.universe();
                    });
                    note(c, &mut panicked, &mut budget);
                    sets.get_mut(&k).expect("live").1 = Model::default().negated();
                }
            }
            Op::SetBin(kind, s, o) => {
                if let (Some(k), Some(j)) = (set_id(*s, &sets), set_id(*o, &sets)) {
                    let (a, b) = (&sets[&k].0, &sets[&j].0);
                    let c = catch(|| {
                        match kind {
                            SetBinKind::Union => a.union(b),
                            SetBinKind::Intersect => a.intersect(b),
                            SetBinKind::Complement => a.complement(b),
                        };
                    });
                    note(c, &mut panicked, &mut budget);
                    let other = sets[&j].1.clone();
                    let m = &mut sets.get_mut(&k).expect("live").1;
                    *m = match kind {
                        SetBinKind::Union => m.union(&other),
                        SetBinKind::Intersect => m.intersect(&other),
                        SetBinKind::Complement => m.difference(&other),
                    };
                }
            }
            Op::SetContains(s, e) => {
                if let Some(k) = set_id(*s, &sets) {
                    // the query itself, and the same query on the neighbours of the element
                    let w = widen(*e, bits);
                    for q in [w, mask(w ^ 1, bits), mask(w ^ (1u128 << (bits - 65)), bits), mask(w ^ (1u128 << 64), bits)] {
                        let set = &sets[&k].0;
                        match catch(|| set.contains(Wide(q))) {
                            Caught::Ok(ans) => {
                                let want = sets[&k].1.contains(q);
                                trace.push(ans as u64);
                                if ans != want {
                                    violations.push(viol("S2", &opname, step_no, format!("contains({q:#x}) on a {bits}-bit set answered {ans}, the reference set says {want}")));
                                    break 'steps;
                                }
                            }
                            c => note(c.map_unit(), &mut panicked, &mut budget),
                        }
                    }
                }
            }
            _ => {}
        }
        rsbdd::verif_hooks::set_budget(None);
        out.ticks += rsbdd::verif_hooks::ticks();
        out.steps += 1;
        if budget {
            out.unjudged = Some("tick budget exhausted in a wide-element set step".into());
            break;
        }
        if let Some((m, l)) = panicked {
            violations.push(viol("S5", &format!("{opname}@{l}"), step_no, format!("{opname} on a {bits}-bit set of custom elements panicked: {m} @ {l}")));
            break;
        }
        // S1: every set's diagram against its reference set on the probe universe
        for (k, (set, model)) in sets.iter() {
            if !all_sets && touched != Some(*k) {
                continue;
            }
            let d = match set.bdd.try_borrow() {
                Ok(d) => Rc::clone(&d),
                Err(_) => {
                    violations.push(viol("S5", &opname, step_no, format!("set #{k} is left mutably borrowed")));
                    break 'steps;
                }
            };
            for e in &universe {
                match member(&d, Wide(*e), bits) {
                    Ok(got) if got == model.contains(*e) => {}
                    Ok(got) => {
                        violations.push(viol("S1", &opname, step_no, format!("set #{k} ({bits} bits, custom element type) after {opname}: element {e:#x} is {}a member, the reference set says {}", if got { "" } else { "not " }, model.contains(*e))));
                        break 'steps;
                    }
                    Err(e) => {
                        violations.push(viol("S1", &opname, step_no, e));
                        break 'steps;
                    }
                }
            }
            trace.push(mix(&[*k as u64, model.finite.len() as u64, model.co as u64]));
        }
    }
    rsbdd::verif_hooks::set_budget(None);
    out.nontrivial = !mentioned.is_empty();
    out.trace_digest = mix(&trace);
    out.state_digests.push(mix(&trace));
    out.violations = violations;
    out.stats = stats;
    out
}

trait MapUnit {
    fn map_unit(self) -> Caught<()>;
}

impl<T> MapUnit for Caught<T> {
    fn map_unit(self) -> Caught<()> {
        match self {
            Caught::Ok(_) => Caught::Ok(()),
            Caught::Budget => Caught::Budget,
            Caught::Cancel => Caught::Cancel,
            Caught::Panic(m, l) => Caught::Panic(m, l),
        }
    }
}
