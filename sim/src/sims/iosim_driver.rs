//! Binds iosim to the `Simulator` interface (C12 in process, C10-T9).

use serde_json::Value;

use super::iosim::{self, IoSimPlan};
use crate::core::{prng_for, RunOutcome, Violation};
use crate::Simulator;

pub struct IoSimDriver {
    property: String,
}

impl IoSimDriver {
    pub fn new(property: &str) -> Self {
        Self {
            property: property.to_string(),
        }
    }

    fn sim_id(&self) -> u64 {
        iosim::SIM_ID * 1000 + self.property[1..].parse::<u64>().unwrap_or(0)
    }

    fn plan(&self, seed: u64, run: u64) -> IoSimPlan {
        let mut rng = prng_for(seed, self.sim_id(), run);
        iosim::gen_plan(&mut rng, &self.property)
    }
}

impl Simulator for IoSimDriver {
    fn name(&self) -> &'static str {
        "iosim"
    }

    fn rule(&self) -> String {
        if self.property == "C10" {
            "T9: one generated valid formula text per run, delivered plainly and through a seeded read-fault plan \
             (chunk sizes, EINTR, at most one hard error, optional BufReader of seeded capacity, or a real tmpfs file); \
             distinct = distinct plan digest; non-trivial = at least one chunk boundary, EINTR, hard error or the real-file channel actually occurred"
                .to_string()
        } else {
            "one stored input per run (generated formula, repository text, token soup, random bytes or handcrafted edge text) \
             with 0-4 storage faults, optional ordering file, delivered through a seeded read-fault plan; DOT output into a seeded write-fault plan; \
             distinct = distinct plan digest; non-trivial = the bytes reached the tokenizer and at least one storage or stream fault actually fired"
                .to_string()
        }
    }

    fn components_real(&self) -> Vec<String> {
        vec!["rsbdd library from /repo's working tree: tokenizer, parser, eval, model, retain, both DOT exporters, dot crate, regex".into()]
    }

    fn components_stub(&self) -> Vec<String> {
        vec![
            "input reader (FaultyReader behind the existing &mut dyn BufRead seam)".into(),
            "output writer (FaultyWriter behind the existing W: Write seam)".into(),
            "stored bytes of formula and ordering file".into(),
            "tick budget (guarded hook)".into(),
        ]
    }

    fn runs(&self, thorough: bool) -> u64 {
        match (self.property.as_str(), thorough) {
            ("C10", false) => 200_000,
            ("C10", true) => 5_000_000,
            (_, false) => 300_000,
            (_, true) => 10_000_000,
        }
    }

    fn run_one(&self, seed: u64, run: u64) -> RunOutcome {
        iosim::execute(&self.plan(seed, run))
    }

    fn plan_json(&self, seed: u64, run: u64) -> Value {
        serde_json::to_value(self.plan(seed, run)).expect("plan serialises")
    }

    fn minimise(&self, seed: u64, run: u64, v: &Violation) -> (Value, Violation, usize) {
        let plan = self.plan(seed, run);
        let n = plan.formula.base.len();
        let (p, mv) = iosim::minimise(&plan, v);
        (serde_json::to_value(p).expect("plan serialises"), mv, n)
    }

    fn replay(&self, plan: &Value) -> RunOutcome {
        match serde_json::from_value::<IoSimPlan>(plan.clone()) {
            Ok(p) => iosim::execute(&p),
            Err(e) => {
                eprintln!("harness error: replay plan does not parse: {e}");
                std::process::exit(2);
            }
        }
    }
}
