#!/bin/bash
# Determinism self-test: every simulator, many seeds, each batch digest computed twice in separate
# processes and at two worker counts; all digests of one (property, seed) must be identical.
# usage: ./selftest-determinism.sh [seeds=8] [runs-per-batch=3000]
set -u
cd "$(dirname "$0")"
./check --build || exit 2
SIM=./target/sim/release/rsbdd-dst
SEEDS="${1:-8}"; RUNS="${2:-3000}"
export VERIF_DIR="$PWD" RSBDD_DST_BIN_DIR="$PWD/target/repo/release"
fail=0
for prop in C13 C02 C19 C12 C10 C11 C14 C18; do
  r=$RUNS; case $prop in C10|C11|C18) r=$((RUNS/10));; esac
  for s in $(seq 1 "$SEEDS"); do
    a=$(VERIF_SEED=$s VERIF_WORKERS=16 $SIM digest $prop $r 2>/dev/null | sort)
    b=$(VERIF_SEED=$s VERIF_WORKERS=3  $SIM digest $prop $r 2>/dev/null | sort)
    c=$(VERIF_SEED=$s VERIF_WORKERS=16 $SIM digest $prop $r 2>/dev/null | sort)
    if [ "$a" != "$b" ] || [ "$a" != "$c" ]; then
      echo "NONDETERMINISM property=$prop seed=$s"; echo "$a"; echo "$b"; echo "$c"; fail=1
    fi
  done
  echo "deterministic: $prop ($SEEDS seeds x 3 executions x $r runs)"
done
exit $fail
