#!/usr/bin/env python3
"""Regenerates MANIFEST.json from the tables below (keeps the file valid and in one place)."""
import json, subprocess

CLAIMED = {
 "C13": dict(engine="envsim", design="4.1",
   technique="deterministic simulation: seeded multi-client histories on one shared BDDEnv (raw API, BDDSet, formula clients; worlds usize / NamedSymbol / a user symbol type with scripted panics) with handle-drop, alias, re-entrancy, cancellation, mid-operation unwinding, table-growth, sparse-id, hash-collision, outside-operand (dropped at once: address reuse), clone-object (operation in a Clone of the environment), address-alias (the simulator's allocator places new nodes 4 GiB apart), call-count (2^16 / in the thorough tier 2^32 cheap calls between two related quantifications), env-default (BDDEnv::default()), deep-diagram (chains over up to 300 variables) and allocator faults; invariants I1-I5 after every step, each operation re-run in a fresh environment",
   text="Seeded exploration of operation histories (interleaved raw-API, BDDSet and formula clients on one environment, with cancelled and re-entrant fp transformers, foreign-node lookups, handle drops and allocator churn). After every step all retained handles are re-walked, every reachable node is compared by address with the environment table, and the step is repeated in a brand-new environment and compared structurally. Exploration level: samples histories, does not enumerate them.",
   note="Trusted: the truth-table walker and the plan executor of /verif/sim. Bounds: <= 6 variables (1 run in 8: 7-10 variables, judged structurally), <= 60 steps, <= 4 clients, counting lists <= 5. In a quarter of the runs operands may live outside the environment (for operations that never look an operand up); from the first such step on the reachability part of I4 and the duplicates / node_list comparisons are not judged in that run. Only unwindings a caller can cause through the public API are injected."),
 "C02": dict(engine="envsim", design="4.3",
   technique="deterministic simulation: the same seeded histories as construction routes (incl. operands from a second environment or from no environment, retries after injected mid-operation panics, nodes placed 4 GiB apart, counting lists of up to 22 operands, chains over up to 300 variables whose near-twins must not hash alike (K5)); every handed-out diagram compared with an independently built canonical diagram of its own function (K1-K3) and of the function a lock-step truth-table model expects (K4), across environments",
   text="Every diagram produced along seeded histories (shared environment, per-step fresh environments, From-converted diagrams) is checked to be ordered and reduced, to be `==` (and hash-equal) to a reduced ordered diagram built from its truth table with plain BDD::Choice values and no environment, and all pairs of live handles satisfy `==` iff same function. Exploration level; the functions dimension is sampled by what the histories build (reported as distinct states).",
   note="Trusted: canon64 (Shannon expansion on bitsets), the walker and the reference semantics of the operations on 64-bit truth tables (K4; model / retain / cancelled fp have no single expected function and are judged by K1-K3 only). One fixed variable order per world. <= 6 variables."),
 "C19": dict(engine="envsim", design="4.2",
   technique="deterministic simulation: seeded BDDSet client histories (incl. self-aliased operands, early drops, BDDSet::clone with diverging use, queries while the caller holds a shared borrow of the set's cell, universes up to 64 bits and, with a caller-defined u128 element type, up to 96 bits, sets of two different widths in one environment, marathon runs beyond 2^20 cached operations) interleaved with raw-API traffic on a shared environment, lock-step against a BTreeSet reference model",
   text="Seeded histories of insert/union/intersect/complement/empty/universe/contains on up to four sets sharing one environment with raw-API clients; after every step membership of every b-bit integer is read off the set's diagram and compared with a BTreeSet that underwent the same operations; queries must answer like the model and leave every set unchanged; self-aliased operands must not panic. Exploration level.",
   note="Trusted: the BTreeSet model and the membership walker (does not call contains). b <= 4 bits mostly, up to 8 bits in 1 run of 8, 16..64 bits (boundary elements, finite / co-finite model) in some; <= 4 live sets, <= 60 steps; a third of the runs are driven by set clients alone and hold no handle to the leaves."),
}

CLAIMED["C12"] = dict(engine="iosim", design="4.5",
   technique="deterministic simulation with fault injection on the input/output stream seams: stored-input corruption (bit flips, drops, splices, bad UTF-8, extreme numerals) delivered through chunking/EINTR/hard-error read plans, DOT output into short-write/error write plans; plus syntax definitions installed through ParsedFormula::define for referenced names and a second evaluation, -g with a stand-in gnuplot (missing / reading / exiting at once / failing), output paths without a file name, one identifier of up to 64 KiB; oracle: no panic, injected errors surface as Err",
   text="Seeded stored inputs (generated formulas, repository texts, token soups, random bytes, handcrafted edge texts) with 0-4 storage faults and optional corrupted ordering files are delivered through fault-injecting readers to tokenize / ParsedFormula::new; then eval under a tick budget, model, retain, the CLI's table walk and both DOT exporters (into a fault-injecting writer) run under catch_unwind. Any panic other than the budget marker is a violation, reported with location; injected hard I/O errors must come back as Err. Exploration level.",
   note="Build: optimised with overflow-checks (= the dev profile's arithmetic, in which the pinned test suite runs). Inputs above the conservative nesting bound 200 or exhausting the tick budget are executed but unjudged, as are panics during evaluation of inputs whose fixed-point iteration provably cycles (the model iterates the parsed tree itself). ReferenceContents::BDD definitions are not installed (the source documents them as unsupported inside fixed points; the property quantifies over byte strings and options). Output-side failure of stdout is outside the property.")

CLAIMED["C18"] = dict(engine="rgsim", design="4.8",
   technique="deterministic simulation of the real random_graph_gen process with its RNG behind a seeded seam (guarded hook): seeded requests incl. infeasible ones, replayed (also started in a removed working directory, with --convert reading through a pipe, and with -o /dev/full) and re-run with --dot toggled; --convert (incl. lists of hundreds of edges with reversed copies) / --colors judged by brute force",
   text="The real binary is spawned per run with a seeded RNG stream replacing thread_rng (guarded hook), over seeded requests (V, E, -u, --complete, --dot, -o; half feasible-interior, a quarter at the maximum, a quarter infeasible or incomplete) and --convert/--colors inputs. Oracles: exactly E distinct loop-free edges over v0..v(V-1), no pair in both orientations under -u, refusal with message and no output for infeasible requests, byte-identical replay, --dot equals the plain edge list, --convert equals the merged input list, clique-cover iff k-colourable by brute force. Exploration level over requests x RNG streams.",
   note="Trusted: the edge-list parsers and brute-force colouring of /verif/sim. --colors is judged on loop-free inputs with <= 5 vertices and k <= 3. Variety of the generator's output is measured (distinct edge sets) but not judged.")

CLAIMED["C14"] = dict(engine="dotsim", design="4.7",
   technique="deterministic simulation with fault injection on the Write seam and on allocation addresses: diagrams from seeded environment histories (incl. environments cloned part-way, and nodes placed at addresses that agree in their low 32 bits by the simulator's allocator) exported through short-write/EINTR/error write plans, read back with an independent DOT reader, compared across histories",
   text="Per run a seeded function is built inside an environment with seeded prior history and allocator churn (node ids are allocation addresses), exported with filters Any/True/False and through a fault-injecting writer, read back by an independent DOT reader and evaluated under all assignments; the same function built through another route in another environment must give an isomorphic graph; filtered exports must equal the unfiltered one minus the opposite leaf and its edges; generated formulas' syntax trees are exported and read back as terms with shared sub-terms. Exploration level; the writer-fault and address dimensions are the simulated part, diagrams/trees are sampled.",
   note="Trusted: /verif/sim's DOT reader (one statement per line, escape_default labels) and truth-table walker. Only diagrams interned in one environment are exported (the exporter identifies nodes by allocation on purpose). <= 6 variables.")

CLAIMED["C10"] = dict(engine="clisim+iosim", design="4.4",
   technique="deterministic simulation of the real rsbdd process (simulator owns argv, stdin chunking, files, ordering file, tick budget) against a truth-table reference model, with variant invocations over input channel, -b N and the way arguments / the ordering file are handed over (relative paths, @argfile, reversed order, ordering through a pipe, removed working directory); plus read-fault plans on the library's BufRead seam (T9)",
   text="Each run prints a seeded formula (incl. wide read-once chains over up to 80 variables) through the real binary under a seeded configuration (channel, filter spelling, -t -v -m -r -b N, ordering file kind) and judges header, disjointness, row values, coverage per filter, -v lines and -m against an independent truth-table evaluator of the generated AST; 1-3 variant invocations (other channel, other -b N) must print byte-identical stdout; in process the same text through chunking/EINTR/hard-error read plans must give identical tokens, tree, variable tables and diagram. Exploration level: T7-T9 decide the channel/fault dimension proper, T1-T6 are as strong as the sampled formulas.",
   note="Trusted: model::fast (AST printer + evaluator), model::table (stdout reader). The clock read by -b is observed, not controlled (its value reaches only stderr). <= 9 names for ordinary formulas; read-once chains for wide tables.")
CLAIMED["C11"] = dict(engine="clisim", design="4.6",
   technique="deterministic simulation of the real rsbdd process over ordering-file configurations (permutation, subset, superset, duplicates, junk) incl. the -r -> file -> -o round trip and other ways of handing the file over (relative path, @argfile, through a pipe, removed working directory), against a by-name truth-table model; API orderings with id gaps in process",
   text="Each run gives a seeded formula an ordering file of a seeded kind and judges the printed table by variable NAME against the reference evaluator and the header against the file's order; some runs repeat without -o and compare functions by name, some export the order with -r, feed it back with -o and require byte-identical output, some check ParsedFormula::new with an API ordering of distinct non-contiguous ids in process (function by name, free_vars/to_free_index, vars). Exploration level: the ordering/round-trip configuration is the simulated dimension, formulas are sampled.",
   note="Trusted: model::fast, model::table. <= 9 names.")

NOT_APPLICABLE = {
}

ALL = ["C%02d" % i for i in range(1, 21)]
NA_REASONS = {
 "C01": "formula text -> truth function is a pure function of the text; no schedule, clock, fault or history to simulate (reader-fault invariance is C10-T9)",
 "C03": "connectives are pure functions of their operand diagrams; environment history cannot influence them (that is C13)",
 "C04": "quantifier elimination is a pure function of (variable list, diagram)",
 "C05": "counting comparisons are pure functions of (operand list, bound)",
 "C06": "lfp/gfp evaluation is a deterministic loop over pure steps; no external event can delay, reorder or interrupt it",
 "C07": "model/infer are pure functions of a diagram",
 "C08": "text -> syntax tree is a pure function of the string",
 "C09": "free-variable analysis is a pure function of the syntax tree",
 "C15": "n_queens_gen is a pure function of n written in one pass; no state, randomness or input stream",
 "C16": "max_clique_gen is a pure function of the edge list and two flags",
 "C17": "sudoku_gen is a pure function of (root, puzzle text)",
 "C20": "retain_choice_bottom_up is a pure function of (diagram, filter)",
 # not yet built (listed until their checks exist)
 "C10": "claimed in DESIGN.md 4.4 (clisim + iosim); check not built yet in this commit",
 "C11": "claimed in DESIGN.md 4.6 (clisim); check not built yet in this commit",
 "C12": "claimed in DESIGN.md 4.5 (iosim + clisim); check not built yet in this commit",
 "C14": "claimed in DESIGN.md 4.7; check not built yet in this commit",
 "C18": "claimed in DESIGN.md 4.8 (rgsim); check not built yet in this commit",
}

def main():
    commits = subprocess.run(["git", "-C", "/repo", "log", "--format=%H %s"], capture_output=True, text=True).stdout.splitlines()
    hook_commits = [l.split()[0] for l in commits if " verif hook:" in l]
    checks = []
    for pid in ALL:
        if pid not in CLAIMED:
            continue
        c = CLAIMED[pid]
        checks.append({
            "property_id": pid,
            "quick_cmd": f"./check {pid} quick",
            "thorough_cmd": f"./check {pid} thorough",
            "evidence_file": f"/verif/evidence/{pid}.json",
            "replay_cmd_template": "./check --replay {path}",
            "engine": c["engine"],
            "level_claimed": {"category": "exploration", "text": c["text"], "design_ref": f"DESIGN.md section {c['design']}"},
            "level_note": c["note"],
            "technique": c["technique"],
        })
    m = {
        "version": 1,
        "setup_cmd": "./setup.sh",
        "hooks": {
            "guard": "--cfg rsbdd_verif",
            "enable": "RUSTFLAGS='--cfg rsbdd_verif' cargo build --offline --release --workspace --config profile.release.overflow-checks=true (done by ./check on every invocation, from /repo's working tree)",
            "baseline_off_cmd": "cd /repo && cargo test --workspace --no-fail-fast --offline",
            "source_commits": hook_commits,
            "add_only": True,
        },
        "engines": [
            {"name": "envsim", "path": "/verif/sim/src/sims/envsim.rs", "serves_properties": ["C13", "C19", "C02", "C14"], "kind_free_text": "deterministic simulation of several clients sharing one BDDEnv; seeded plans, fault steps, per-step invariants, ddmin minimisation, replay files"},
            {"name": "iosim", "path": "/verif/sim/src/sims/iosim.rs", "serves_properties": ["C12", "C10", "C14"], "kind_free_text": "stream-fault simulator on the existing BufRead / Write seams (chunking, EINTR, hard errors, short writes, stored-input corruption)"},
            {"name": "clisim", "path": "/verif/sim/src/sims/clisim.rs", "serves_properties": ["C10", "C11", "C12", "C14"], "kind_free_text": "whole-process simulator of the rsbdd binary: argv, stdin, files, file-system faults, against a truth-table reference model"},
            {"name": "rgsim", "path": "/verif/sim/src/sims/rgsim.rs", "serves_properties": ["C18"], "kind_free_text": "random_graph_gen under a seeded RNG seam"},
        ],
        "checks": checks,
        "not_applicable": [{"property_id": p, "reason": NA_REASONS[p]} for p in ALL if p not in CLAIMED],
        "notes": "Technique: deterministic simulation with fault injection (DESIGN.md). Exit 2 = harness error, never a verdict. Known findings: /verif/known_findings.json.",
    }
    json.dump(m, open("/verif/MANIFEST.json", "w"), indent=1)
    print("wrote MANIFEST.json:", [c["property_id"] for c in checks])

main()
