#!/bin/bash
# Offline build of the framework and of the code under test (hooks on). Idempotent.
set -e
cd "$(dirname "$0")"
exec ./check --build
