#!/bin/bash
# sweep.sh <first-seed> <last-seed> [tier]   — every claimed check under each VERIF_SEED in the range;
# prints one line per (seed, property) and the full output of any check that does not exit 0.
# Exit 0 iff every check exited 0. Meant for `vp run --with-repo -- ./sweep.sh 1 24`.
set -u
cd "$(dirname "$0")"
lo="${1:-1}"; hi="${2:-8}"; tier="${3:-quick}"; bad=0
# under `vp run --with-repo` the checks use the snapshot of /repo's HEAD instead of /repo itself
[ -n "${VP_RUN_REPO:-}" ] && export RSBDD_REPO="$VP_RUN_REPO"
for s in $(seq "$lo" "$hi"); do
  for p in C02 C10 C11 C12 C13 C14 C18 C19; do
    out=$(VERIF_SEED=$s ./check $p "$tier" 2>&1); rc=$?
    echo "seed=$s $p rc=$rc $(echo "$out" | grep -E "^OK|^NOTE" | tr '\n' ' ')"
    if [ $rc -ne 0 ]; then bad=1; echo "$out" | cut -c1-400 | head -40; fi
  done
done
echo "SWEEP-DONE bad=$bad"
exit $bad
